#!/usr/bin/env python3
"""Line coverage of /repo/s3transfer under a sample of every check's cases
(a diagnostic for generator blind spots; not part of the registered checks)."""
import os, sys, json
sys.path.insert(0, '/verif')
import coverage
cov = coverage.Coverage(source=['/repo/s3transfer'], concurrency=['thread'],
                        data_file='/tmp/vt.coverage')
cov.start()
import vt
from vt.checks import get_check, _REGISTRY
import hypothesis
from hypothesis import given, settings, HealthCheck, Phase
N = int(sys.argv[1]) if len(sys.argv) > 1 else 150
for pid in sorted(_REGISTRY):
    chk = get_check(pid)
    strat = chk.strategy('quick')
    if strat is not None and chk.examples('quick') > 0:
        @hypothesis.seed(7)
        @settings(max_examples=N, database=None, deadline=None,
                  phases=[Phase.generate],
                  suppress_health_check=list(HealthCheck))
        @given(strat)
        def drive(case):
            try:
                chk.execute(case)
            except Exception as e:
                print(pid, 'ERR', repr(e)[:100])
        drive()
    if pid == 'C15':
        from vt.units import routing
        allc = routing.cells() + routing.legacy_cells() + routing.pp_cells()
        for cell in allc[::7]:
            try:
                if cell[0] == 'legacy':
                    routing.run_legacy_cell(cell)
                elif cell[0] == 'pp':
                    routing.run_pp_cell(cell)
                else:
                    chk.run_cell(cell)
            except Exception as e:
                print('C15 ERR', repr(e)[:100])
    print(pid, 'done', flush=True)
cov.stop()
cov.save()
cov.report(show_missing=True, skip_covered=False)
