#!/usr/bin/env python3
"""Sensitivity helper: apply a patch to a scratch copy of /repo (outside
/repo and /verif), run checks against it, remove the copy.

  tools/mut.py [--reverse] [--tier quick] [--scale 1] PATCH CHECK [CHECK...]
  tools/mut.py --sed 's/a/b/' --file s3transfer/x.py CHECK...
"""
import argparse, os, shutil, subprocess, sys, tempfile

ap = argparse.ArgumentParser()
ap.add_argument('--reverse', action='store_true')
ap.add_argument('--tier', default='quick')
ap.add_argument('--scale', default='1')
ap.add_argument('--seed', default='1')
ap.add_argument('--py', help='python snippet: edits file text `s` -> `s`')
ap.add_argument('--file')
ap.add_argument('--keep', action='store_true')
ap.add_argument('patch_or_check', nargs='+')
a = ap.parse_args()
items = a.patch_or_check
patch = None
if not a.py:
    patch = os.path.abspath(items[0])
    items = items[1:]
d = tempfile.mkdtemp(prefix='s3t-mut-', dir='/dev/shm')
try:
    subprocess.check_call(['git', '-C', '/repo', 'worktree', 'add', '-q',
                           '--detach', d + '/w'])
    w = d + '/w'
    # bring over uncommitted changes of /repo (normally none)
    diff = subprocess.run(['git', '-C', '/repo', 'diff', 'HEAD'],
                          capture_output=True, text=True).stdout
    if diff.strip():
        subprocess.run(['git', '-C', w, 'apply'], input=diff, text=True,
                       check=True)
    if patch:
        cmd = ['git', '-C', w, 'apply']
        if a.reverse:
            cmd.append('-R')
        subprocess.check_call(cmd + [patch])
    else:
        p = os.path.join(w, a.file)
        s = open(p).read()
        ns = {'s': s}
        exec(a.py, ns)
        if ns['s'] == s:
            print('MUTATION DID NOT CHANGE THE FILE'); sys.exit(3)
        open(p, 'w').write(ns['s'])
    out = d + '/out'
    os.makedirs(out)
    env = dict(os.environ, VERIF_REPO=w, VT_OUT=out, VERIF_SEED=a.seed)
    rc_all = {}
    for chk in items:
        r = subprocess.run(['/venv/bin/python', '-m', 'vt.runner', chk,
                            '--tier', a.tier, '--scale', a.scale],
                           cwd='/verif', env=env, capture_output=True,
                           text=True)
        lines = [l for l in r.stdout.splitlines()
                 if l.startswith(('VIOLATION', '  signature', 'KNOWN'))
                 or l.startswith(chk)]
        print(f'== {chk}: exit {r.returncode}')
        for l in lines[:8]:
            print('   ', l)
        if r.returncode not in (0, 1):
            print(r.stderr[-2000:])
        rc_all[chk] = r.returncode
    sys.exit(0)
finally:
    subprocess.run(['git', '-C', '/repo', 'worktree', 'remove', '--force',
                    d + '/w'], capture_output=True)
    if not a.keep:
        shutil.rmtree(d, ignore_errors=True)
