#!/usr/bin/env python3
"""Re-verify every saved seed against the current /repo HEAD: does the patch
still apply, does the demonstration still fail with it and pass without it,
which checks report it.  Writes the verdict into seeded/<name>/meta.json
('recheck').  Scratch worktrees only; nothing is applied to /repo."""
import json, os, shutil, subprocess, sys, tempfile, time

only = set(sys.argv[1:])
base = '/verif/seeded'
head = subprocess.check_output(['git', '-C', '/repo', 'rev-parse', '--short',
                                'HEAD'], text=True).strip()
for name in sorted(os.listdir(base)):
    if only and name not in only:
        continue
    d = os.path.join(base, name)
    meta = json.load(open(d + '/meta.json'))
    tmp = tempfile.mkdtemp(prefix='s3t-recheck-', dir='/dev/shm')
    w = tmp + '/w'
    rc = {'repo_commit': head}
    try:
        subprocess.check_call(['git', '-C', '/repo', 'worktree', 'add', '-q',
                               '--detach', w])
        r = subprocess.run(['/venv/bin/python', d + '/demo_test.py'], cwd=w,
                           capture_output=True, text=True, timeout=600)
        rc['demo_without_patch'] = r.returncode
        r = subprocess.run(['git', '-C', w, 'apply', d + '/patch.diff'],
                           capture_output=True, text=True)
        rc['patch_applies'] = r.returncode == 0
        if rc['patch_applies']:
            r = subprocess.run(['/venv/bin/python', d + '/demo_test.py'],
                               cwd=w, capture_output=True, text=True,
                               timeout=600)
            rc['demo_with_patch'] = r.returncode
            rc['still_manifests'] = (r.returncode != 0 and
                                     rc['demo_without_patch'] == 0)
            out = tmp + '/out'
            os.makedirs(out)
            env = dict(os.environ, VERIF_REPO=w, VT_OUT=out,
                       VT_WATCHDOG_S='900')
            rc['checks'] = {}
            for chk in meta.get('checks', {}):
                rr = subprocess.run(
                    ['/venv/bin/python', '-m', 'vt.runner', chk, '--tier',
                     'quick'], cwd='/verif', env=env, capture_output=True,
                    text=True)
                sigs = [l.strip()[11:] for l in rr.stdout.splitlines()
                        if l.strip().startswith('signature:')]
                rc['checks'][chk] = {'exit': rr.returncode,
                                     'signatures': sigs[:4]}
        meta['recheck'] = rc
        json.dump(meta, open(d + '/meta.json', 'w'), indent=1)
        print(name, json.dumps({k: v for k, v in rc.items()
                                if k != 'checks'}),
              {k: v['exit'] for k, v in rc.get('checks', {}).items()},
              flush=True)
    finally:
        subprocess.run(['git', '-C', '/repo', 'worktree', 'remove', '--force',
                        w], capture_output=True)
        shutil.rmtree(tmp, ignore_errors=True)
