#!/usr/bin/env python3
"""Confirm and evaluate a seeded change produced by an independent sub-agent.

  tools/seed_eval.py <name> <out_dir> <property> CHECK [CHECK...] [--save]

Steps (all in scratch worktrees outside /repo and /verif, removed after):
  1. patch applies to /repo HEAD; repository unit+functional tests pass,
  2. the demonstration fails with the patch and passes without it,
  3. each listed check is run against the patched tree (quick tier).
With --save the change is stored as /verif/seeded/<name>/.
"""
import argparse, json, os, shutil, subprocess, sys, tempfile, time

ap = argparse.ArgumentParser()
ap.add_argument('name')
ap.add_argument('out_dir')
ap.add_argument('prop')
ap.add_argument('checks', nargs='*')
ap.add_argument('--save', action='store_true')
ap.add_argument('--scale', default='1')
ap.add_argument('--needs', default='')
ap.add_argument('--skip-confirm', action='store_true')
a = ap.parse_args()
patch = os.path.join(a.out_dir, 'patch.diff')
demo = os.path.join(a.out_dir, 'demo_test.py')
d = tempfile.mkdtemp(prefix='s3t-seed-', dir='/dev/shm')
w = d + '/w'
res = {'name': a.name, 'property': a.prop}
try:
    subprocess.check_call(['git', '-C', '/repo', 'worktree', 'add', '-q',
                           '--detach', w])
    base = subprocess.check_output(['git', '-C', '/repo', 'rev-parse',
                                    '--short', 'HEAD'], text=True).strip()
    res['repo_commit'] = base
    if not a.skip_confirm:
        r = subprocess.run(['/venv/bin/python', demo], cwd=w,
                           capture_output=True, text=True, timeout=600)
        res['demo_without_patch'] = r.returncode
    r = subprocess.run(['git', '-C', w, 'apply', patch],
                       capture_output=True, text=True)
    if r.returncode != 0:
        r = subprocess.run(['git', '-C', w, 'apply', '--3way', patch],
                           capture_output=True, text=True)
    res['patch_applies'] = r.returncode == 0
    if not res['patch_applies']:
        print(r.stderr)
    if res['patch_applies'] and not a.skip_confirm:
        r = subprocess.run(['/venv/bin/python', demo], cwd=w,
                           capture_output=True, text=True, timeout=600)
        res['demo_with_patch'] = r.returncode
        res['demo_tail'] = (r.stdout + r.stderr)[-400:]
        r = subprocess.run(
            ['/venv/bin/python', '-m', 'pytest', '-q', '-n', '8',
             '-p', 'no:cacheprovider', 'tests/unit', 'tests/functional'],
            cwd=w, capture_output=True, text=True)
        res['suite_with_patch'] = r.returncode
        res['suite_tail'] = r.stdout.strip().splitlines()[-1:]
    res['checks'] = {}
    if res['patch_applies']:
        out = d + '/out'
        os.makedirs(out)
        env = dict(os.environ, VERIF_REPO=w, VT_OUT=out, VT_WATCHDOG_S='900')
        for chk in a.checks:
            t0 = time.time()
            r = subprocess.run(['/venv/bin/python', '-m', 'vt.runner', chk,
                                '--tier', 'quick', '--scale', a.scale],
                               cwd='/verif', env=env, capture_output=True,
                               text=True)
            sigs = [l.strip()[11:] for l in r.stdout.splitlines()
                    if l.strip().startswith('signature:')]
            res['checks'][chk] = {
                'exit': r.returncode, 'signatures': sigs[:6],
                'wall_s': round(time.time() - t0)}
            if r.returncode not in (0, 1):
                print(r.stderr[-1500:])
    print(json.dumps(res, indent=1))
    if a.save:
        dst = os.path.join('/verif/seeded', a.name)
        os.makedirs(dst, exist_ok=True)
        shutil.copy(patch, dst + '/patch.diff')
        shutil.copy(demo, dst + '/demo_test.py')
        if os.path.exists(os.path.join(a.out_dir, 'notes.md')):
            shutil.copy(os.path.join(a.out_dir, 'notes.md'),
                        dst + '/notes.md')
        meta = {
            'property': a.prop, 'name': a.name,
            'needs_to_manifest': a.needs,
            'source': 'independent sub-agent given only the property text '
                      'and a scratch worktree',
            'confirmed': {k: res.get(k) for k in (
                'repo_commit', 'patch_applies', 'suite_with_patch',
                'suite_tail', 'demo_with_patch', 'demo_without_patch')},
            'ran': ['git apply patch.diff in a scratch worktree of /repo',
                    'pytest tests/unit tests/functional (must pass)',
                    'python demo_test.py with and without the patch',
                    'vt.runner <check> --tier quick with VERIF_REPO=worktree'],
            'checks': res['checks'],
        }
        json.dump(meta, open(dst + '/meta.json', 'w'), indent=1)
finally:
    subprocess.run(['git', '-C', '/repo', 'worktree', 'remove', '--force', w],
                   capture_output=True)
    shutil.rmtree(d, ignore_errors=True)
