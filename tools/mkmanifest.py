#!/usr/bin/env python3
"""Regenerates MANIFEST.json from the table below (keeps it valid)."""
import json, os, sys
sys.path.insert(0, os.path.dirname(os.path.dirname(os.path.abspath(__file__))))

PY = '/venv/bin/python'
E2E_EXTRA = (' Also (C03-C06, C08, C18): serial-executor cases in which a KeyboardInterrupt is raised inside an S3 call, read or destination operation on the user thread (every such site of a fixed scenario matrix in turn, and in generated programs).' ' Also: legacy S3Transfer front-end on real threads with schedule-independent oracles where the property names it; a thin real-scale class (unscaled ChunksizeAdjuster, MiB payloads) in C01/C02; exhaustive single-fault / single-preemption enumeration over a fixed scenario matrix in C03-C06; line-granularity preemption (sys.monitoring): drawn line numbers in a quarter and dense mode in another quarter of the C04/C08/C10/C18 cases, every executed line of a fixed scenario matrix in C08; request latency in virtual time in C04/C05/C07/C08/C10/C11/C18; coverage-guided campaigns (atheris) over the same strategy and oracle in every check.')
E2E_NOTE = 'Trusted: vt/detsched.py (scheduler, threading/time shims, executor with ThreadPoolExecutor semantics), vt/fakes3.py (fake S3 + botocore body protocol), vt/fakefs.py (in-memory FS behind OSUtils), scaled ChunksizeAdjuster limits. Verdict = held on every generated case; evidence reports counts, classes and samples.'

def e2e(text, tech, ref):
    return dict(cat='exploration', ref=ref, text=text, note=E2E_NOTE + E2E_EXTRA,
                technique='property-based testing: ' + tech)

CHECKS = {
    'C01': e2e('Generated uploads/copies (all source kinds, boundary sizes, configs, client-level body rewinds, aws-chunked wrapper) x generated schedules on the real TransferManager; round-trip oracle through a fake S3 service plus CompleteMultipartUpload argument check.', 'Hypothesis cases + deterministic schedules, round-trip oracle', 'DESIGN.md 4/C01'),
    'C02': e2e('Generated downloads to all destination kinds with per-attempt stream scripts (short reads, retryable faults at any byte) x schedules; oracle: destination equals object, sequential writes on non-seekable streams, GETs per range within the attempt budget.', 'Hypothesis cases + fault scripts + schedules, round-trip oracle', 'DESIGN.md 4/C02'),
    'C03': dict(cat='fault_enumeration', ref='DESIGN.md 4/C03', note=E2E_NOTE,
                text='Generated fault plans (k-th call of each S3 operation before/after effect, source reads, destination open/write/close/rename, on_queued/on_progress callbacks, stream faults within and beyond the retry budget) on every transfer type/mode x schedules; oracle: result() raises a delivered fault / RetriesExceededError over one / the cancellation error, never returns.',
                technique='property-based testing: generated fault plans + schedules, exception-identity oracle'),
    'C04': e2e('Schedule-, fault- and cancel-quantified search for deadlocks, livelocks and unfinished futures on the real TransferManager under a deterministic scheduler that owns every synchronisation point (random-walk, PCT, bounded-preemption schedules; re-entrant subscribers; Ctrl-C).', 'Hypothesis programs + schedules, deadlock/livelock oracle', 'DESIGN.md 4/C04'),
    'C05': dict(cat='fault_enumeration', ref='DESIGN.md 4/C05', note=E2E_NOTE,
                text='Multipart uploads/copies under generated fault plans (create/part/complete before or after effect, source reads, callbacks), cancels and schedules; oracle over the fake service multipart table (per upload id ordered log with begin/end steps): completed once xor aborted, nothing after abort, abort after all other calls returned, all before result() unblocks.',
                technique='property-based testing: fault plans + cancels + schedules, history invariant over the multipart table'),
    'C06': dict(cat='fault_enumeration', ref='DESIGN.md 4/C06', note=E2E_NOTE,
                text='Path downloads under faults in open/write/close/rename and requests, cancels and schedules; the destination is checked after EVERY file-system mutation (each is a crash point) and the directory when the future is done.',
                technique='property-based testing: fault plans + schedules, invariant checked at every file-system mutation'),
    'C07': e2e('Every cancellation entry point (future.cancel from a second thread, shutdown(cancel, msg), exception / KeyboardInterrupt leaving the with-block, Ctrl-C while parked in result()/shutdown()) at generated steps x schedules; oracle on exception type+message, zero requests for not-started transfers, cleanups, racing success must be complete.', 'Hypothesis cancel points + schedules, outcome oracle', 'DESIGN.md 4/C07'),
    'C08': e2e('Recording subscribers (1-3 per transfer, some raising, some supplying size) x all outcomes x schedules; oracle on callback steps versus the fake-S3 call log (once, ordered, after the work, result() not blocking, no progress after done); coordinator-level two-thread scenarios and a fixed matrix of whole transfers with one forced preemption at every executed source line.', 'Hypothesis cases + schedules, trace-order oracle', 'DESIGN.md 4/C08'),
    'C09': e2e('Progress accounting under body rewinds, suppressed signing reads, aws-chunked wrapper, stream retries and a scaled aggregation threshold; oracle sum==size, running sum in [0,size]; plus a ReadFileChunk reference-model machine (read/seek/enable/disable sequences) and a differential validation of the fake body protocol against a real botocore client answered locally.', 'Hypothesis cases + reference cursor model', 'DESIGN.md 4/C09; 10'),
    'C10': e2e('2-6 concurrent transfers with limits biased to 1 (one case in eight: 5-10 transfers, limits of 5-10 incl. the defaults) under PCT/walk/preempt schedules, request latency in virtual time; oracle at every step from begin/end events and instrumented executors (in-flight requests, stage of each request, queue occupancy, executor wiring, single writer).', 'Hypothesis cases + schedules, step-wise counting oracle', 'DESIGN.md 4/C10'),
    'C11': e2e('Stream uploads and non-seekable ranged downloads sharing a manager with in-memory limits 1-3, 0-1 planted fault and 0-1 cancel; step-wise oracle on in-memory part tasks queued or running (whatever the outcome), bytes read awaiting a finished part, download window per transfer and in sum, pending writes.', 'Hypothesis cases + schedules, step-wise bound oracle', 'DESIGN.md 4/C11'),
    'C12': dict(cat='exploration', ref='DESIGN.md 4/C12', note='Reference model written from the statement; sequential histories run on an inline shim (blocking = failure), blocking histories and quiescence under vt/detsched.py. Exhaustive only for the stated depth/tags/capacities.',
                text='SlidingWindowSemaphore/TaskSemaphore versus a reference model: exhaustive DFS over all operation sequences (<=3 tags, capacity 1..3) to depth 7 (quick) / 9 (thorough), Hypothesis sequences beyond, blocking histories under the deterministic scheduler, and quiescence of every manager semaphore after end-to-end runs.',
                technique='model-based testing: exhaustive DFS + Hypothesis sequences vs reference model; schedule search for lost wake-ups'),
    'C13': dict(cat='exploration', ref='DESIGN.md 4/C13', note='Virtual time (s3transfer.bandwidth.time is the scheduler clock). Burst constant K=3 per stream (DESIGN 3.8). Trusted: scheduler, fake S3 for the E2E wiring class.',
                text='Discrete-event simulation in virtual time on the real LeakyBucket/BandwidthLimitedStream (1-8 streams, adversarial read sizes/think times, late wake-ups, streams abandoned while parked) with an oracle over the history of reads and requested sleeps; plus end-to-end transfers with max_bandwidth set.',
                technique='property-based testing: generated virtual-time histories, history oracle (window rate bound, bounded single wait, no delay below limit)'),
    'C14': dict(cat='exploration', ref='DESIGN.md 4/C14', note='Exhaustive on the scaled arithmetic domain only; real scale is sampled at boundaries; end-to-end requests from the TransferManager with a scaled adjuster.',
                text='Part-planning validity predicates: exhaustive scaled domain for calculate_num_parts/calculate_range_parameter/ChunksizeAdjuster, boundary-biased real-scale points to 5 TiB / 8 GiB (the full 9 x 13 boundary product as data-less copies), and the Range/CopySourceRange/PartNumber/body sizes of requests actually issued.',
                technique='exhaustive enumeration + property-based testing with validity predicates'),
    'C15': dict(cat='exploration', ref='DESIGN.md 4/C15', note='Differential oracle = input shapes of the installed botocore S3 service model; stated exceptions (copy HeadObject mapping, full-object checksums, CRC32 default) written from the property.',
                text='Exhaustive over the finite cell space (method x mode x size discovered/provided x request_checksum_calculation x every allowed argument alone, every checksum-family subset, all together; every foreign S3 member name rejected) on the TransferManager, differential against botocore operation shapes.',
                technique='exhaustive enumeration, differential against the botocore service model'),
    'C16': dict(cat='exploration', ref='DESIGN.md 4/C16', note='Histories are those the download loop can produce; exhaustive for the stated byte/part/attempt bound only. E2E part trusts scheduler and fake S3.',
                text='DeferQueue versus a set-of-delivered-positions reference model: exhaustive over all delivery histories up to n=5 (quick) / n=6 (thorough) bytes, <=3 parts, <=2 attempts; Hypothesis histories to 40 bytes; end-to-end non-seekable downloads under stream retries.',
                technique='model-based testing: exhaustive history enumeration + Hypothesis vs reference model'),
    'C17': dict(cat='exploration', ref='DESIGN.md 4/C17', note='Reference state machine written from the statement; announce_done generated only after a terminal status; concurrent part under vt/detsched.py with sys.monitoring line preemption.',
                text='TransferCoordinator/TransferFuture versus a reference state machine: exhaustive over all operation sequences to length 6 (quick) / 7 (thorough) over 11 operations, Hypothesis sequences to 30, 2-3 thread histories with line-level preemption (done() monotone, linearizable final state) including a systematic single preemption at every executed line for all 2-thread one-operation scenarios.',
                technique='model-based testing: exhaustive sequences + linearizability check under controlled schedules'),
    'C19': dict(cat='exploration', ref='DESIGN.md 4/C19', note='The cross-process protocol is replayed in ONE process: s3transfer.processpool reaches multiprocessing/threading/signal/TransferMonitorManager/ClientFactory/OSUtils/open through module names that are rebound to controlled shims; real pickling, signals and OS process scheduling are not exercised. Every monitor call is a scheduling point.',
                text='The real ProcessPoolDownloader/GetObjectSubmitter/GetObjectWorker/TransferMonitor objects run under the deterministic scheduler (1-3 workers, 1-2 downloads of 1-4 jobs, faults in head/allocate/any job/open/write/rename, cancels, exception or Ctrl-C leaving the with-block) with an oracle on the monitor protocol, the destination directory at the done moment and at every file-system mutation, and shutdown.',
                technique='property-based testing: generated schedules + fault plans on an in-process replay of the process pool'),
    'C20': dict(cat='exploration', ref='DESIGN.md 4/C20', note='A stub awscrt package stands for the CRT (absent here); requests are finished from controlled CRT threads that set finished_future and then call on_done, as awscrt does; only the Python glue in s3transfer/crt.py is judged; the 128-permit semaphore object is swapped for a 1-3 permit one.',
                text='Generated histories of upload/download/delete submissions against a stub CRT client whose requests succeed, fail, are cancelled or fail at construction, in any completion order, with more transfers than permits, under generated schedules; oracle: permit conservation, on_done before callbacks-complete, rename xor remove, shutdown after every after-done handler.',
                technique='property-based testing: generated submission/completion histories + schedules against a stub CRT'),
    'C18': e2e('2-4 concurrent transfers with a drawn subset failing or cancelled, then a fresh transfer and/or shutdown; oracle: untouched transfers succeed byte-exact, nothing happens after shutdown returns, all semaphores back at capacity.', 'Hypothesis cases + fault plans + schedules, isolation/barrier oracle', 'DESIGN.md 4/C18'),
}
NOT_YET = 'check not built yet in this working session (in progress; see DESIGN.md 4 for the plan)'


def main():
    props = [json.loads(l) for l in open('/verif/properties.jsonl')]
    checks = []
    na = []
    for p in props:
        pid = p['id']
        c = CHECKS.get(pid)
        if not c:
            na.append({'property_id': pid, 'reason': NOT_YET})
            continue
        checks.append({
            'property_id': pid,
            'quick_cmd': f'{PY} -m vt.runner {pid} --tier quick',
            'thorough_cmd': f'{PY} -m vt.runner {pid} --tier thorough',
            'evidence_file': f'/verif/evidence/{pid}.json',
            'replay_cmd_template': f'{PY} -m vt.runner {pid} --replay {{path}}',
            'engine': 'vt',
            'level_claimed': {'category': c['cat'], 'text': c['text'],
                              'design_ref': c['ref']},
            'level_note': c['note'],
            'technique': c['technique'] + (
                '; plus a coverage-guided fuzzing campaign (atheris) over '
                'the same generator and oracle' if pid != 'C15' else ''),
        })
    m = {
        'version': 1,
        'setup_cmd': f'{PY} -c "import hypothesis" 2>/dev/null || '
                     '/venv/bin/pip install --no-index --find-links '
                     f'/opt/veriftools/wheels hypothesis; '
                     f'{PY} -c "import atheris" 2>/dev/null || '
                     '/venv/bin/pip install --no-index --find-links '
                     f'/opt/veriftools/wheels atheris; {PY} -m compileall '
                     '-q vt',
        'hooks': {
            'guard': 'S3TRANSFER_VERIF',
            'enable': 'no source hooks are needed: the harness rebinds '
                      'module-level names (threading, time, '
                      'ChunksizeAdjuster) from outside and passes its own '
                      'executor_cls; checks import /repo\'s working tree '
                      'directly (VERIF_REPO overrides the path)',
            'baseline_off_cmd': 'python3 /verif/tools/baseline.py',
            'source_commits': [],
            'add_only': True,
        },
        'engines': [{
            'name': 'vt', 'path': '/verif/vt',
            'serves_properties': [c['property_id'] for c in checks],
            'kind_free_text': 'Hypothesis-driven property-based testing with '
                              'a deterministic scheduler, fake S3 service and '
                              'in-memory file system; exhaustive enumeration '
                              'on finite sub-domains; coverage-guided '
                              'campaigns (atheris/libFuzzer) over the same '
                              'strategies and oracles',
        }],
        'checks': checks,
        'not_applicable': na,
        'notes': 'See DESIGN.md. known_findings.json lists fixed / known '
                 'findings; replays/ holds shrunk failing cases.',
    }
    json.dump(m, open('/verif/MANIFEST.json', 'w'), indent=1)
    try:
        import jsonschema
        jsonschema.validate(m, json.load(open('/root/.vp/MANIFEST.schema.json')))
        print('manifest valid;', len(checks), 'checks,', len(na), 'n/a')
    except ImportError:
        print('written (jsonschema not available to validate)')


if __name__ == '__main__':
    main()
