#!/usr/bin/env python3
"""Regenerates MANIFEST.json from the table below (keeps it valid)."""
import json, os, sys
sys.path.insert(0, os.path.dirname(os.path.dirname(os.path.abspath(__file__))))

PY = '/venv/bin/python'
CHECKS = {
    'C04': dict(
        cat='exploration', ref='DESIGN.md 4/C04',
        text='Schedule-, fault- and cancel-quantified search for deadlocks, '
             'livelocks and unfinished futures on the real TransferManager '
             'under a deterministic scheduler that owns every '
             'synchronisation point; random-walk, PCT and bounded-preemption '
             'schedules; re-entrant subscribers. Exploration is the right '
             'level: the property quantifies over schedules, which become '
             'generated inputs here.',
        note='Trusted: vt/detsched.py (threading/time shims, executor with '
             'ThreadPoolExecutor semantics), fake S3 and in-memory FS; '
             'deadlock = no enabled thread; livelock = step budget exceeded '
             'twice (10x the second time).',
        technique='property-based testing: Hypothesis-generated programs + '
                  'schedules, deadlock/livelock oracle'),
}
NOT_YET = 'check not built yet in this working session (in progress; see DESIGN.md 4 for the plan)'


def main():
    props = [json.loads(l) for l in open('/verif/properties.jsonl')]
    checks = []
    na = []
    for p in props:
        pid = p['id']
        c = CHECKS.get(pid)
        if not c:
            na.append({'property_id': pid, 'reason': NOT_YET})
            continue
        checks.append({
            'property_id': pid,
            'quick_cmd': f'{PY} -m vt.runner {pid} --tier quick',
            'thorough_cmd': f'{PY} -m vt.runner {pid} --tier thorough',
            'evidence_file': f'/verif/evidence/{pid}.json',
            'replay_cmd_template': f'{PY} -m vt.runner {pid} --replay {{path}}',
            'engine': 'vt',
            'level_claimed': {'category': c['cat'], 'text': c['text'],
                              'design_ref': c['ref']},
            'level_note': c['note'],
            'technique': c['technique'],
        })
    m = {
        'version': 1,
        'setup_cmd': f'{PY} -c "import hypothesis" 2>/dev/null || '
                     '/venv/bin/pip install --no-index --find-links '
                     f'/opt/veriftools/wheels hypothesis; {PY} -m compileall '
                     '-q vt',
        'hooks': {
            'guard': 'S3TRANSFER_VERIF',
            'enable': 'no source hooks are needed: the harness rebinds '
                      'module-level names (threading, time, '
                      'ChunksizeAdjuster) from outside and passes its own '
                      'executor_cls; checks import /repo\'s working tree '
                      'directly (VERIF_REPO overrides the path)',
            'baseline_off_cmd': 'python3 /verif/tools/baseline.py',
            'source_commits': [],
            'add_only': True,
        },
        'engines': [{
            'name': 'vt', 'path': '/verif/vt',
            'serves_properties': [c['property_id'] for c in checks],
            'kind_free_text': 'Hypothesis-driven property-based testing with '
                              'a deterministic scheduler, fake S3 service and '
                              'in-memory file system; exhaustive enumeration '
                              'on finite sub-domains',
        }],
        'checks': checks,
        'not_applicable': na,
        'notes': 'See DESIGN.md. known_findings.json lists fixed / known '
                 'findings; replays/ holds shrunk failing cases.',
    }
    json.dump(m, open('/verif/MANIFEST.json', 'w'), indent=1)
    try:
        import jsonschema
        jsonschema.validate(m, json.load(open('/root/.vp/MANIFEST.schema.json')))
        print('manifest valid;', len(checks), 'checks,', len(na), 'n/a')
    except ImportError:
        print('written (jsonschema not available to validate)')


if __name__ == '__main__':
    main()
