#!/usr/bin/env python3
"""Prints the markdown table of seeded changes from seeded/*/meta.json."""
import json, os
base = '/verif/seeded'
print('| seed | property | what it needs to manifest | checks (quick tier) | note |')
print('|------|----------|---------------------------|---------------------|------|')
for name in sorted(os.listdir(base), key=lambda n: int(n[1:3])):
    m = json.load(open(os.path.join(base, name, 'meta.json')))
    ck = m.get('checks', {})
    verdict = ', '.join(f"{k}: {'caught' if v['exit'] == 1 else 'missed' if v['exit'] == 0 else 'error'}"
                        for k, v in ck.items())
    note = m.get('history', '')
    rc = m.get('recheck')
    if rc:
        if not rc.get('patch_applies'):
            note += (' ' if note else '') + f"(patch no longer applies at {rc['repo_commit']})"
        elif rc.get('still_manifests') is False:
            note += (' ' if note else '') + f"(no longer manifests at {rc['repo_commit']}: later fix removed its precondition)"
        else:
            bad = [k for k, v in rc.get('checks', {}).items() if v['exit'] != 1]
            note += (' ' if note else '') + f"(re-verified at {rc['repo_commit']}" + (f"; not reported by {bad}" if bad else '') + ')'
    needs = m.get('needs_to_manifest', '').replace('|', '/')
    print(f"| {name} | {m['property']} | {needs} | {verdict} | {note} |")
