#!/usr/bin/env python3
"""Run the repository's pinned baseline (guard OFF) and compare with
/root/.vp/BASELINE.json: every stable_pass test must pass."""
import json, os, subprocess, sys, tempfile
import xml.etree.ElementTree as ET

base = json.load(open('/root/.vp/BASELINE.json'))
fd, xml = tempfile.mkstemp(suffix='.xml', prefix='s3t-baseline-')
os.close(fd)
env = dict(os.environ)
env.pop('S3TRANSFER_VERIF', None)
cmd = base['cmd'].replace('<file>', xml)
if '-n ' not in cmd and os.environ.get('BASELINE_XDIST', '1') == '1':
    cmd = cmd.replace('-m pytest', '-m pytest -n 8')
r = subprocess.run(cmd, shell=True, env=env, stdout=subprocess.PIPE,
                   stderr=subprocess.STDOUT, text=True)
passed = set()
for tc in ET.parse(xml).getroot().iter('testcase'):
    if not any(c.tag in ('failure', 'error', 'skipped') for c in tc):
        passed.add(f"{tc.get('classname')}::{tc.get('name')}")
os.unlink(xml)
missing = [t for t in base['stable_pass'] if t not in passed]
print(f'baseline: {len(base["stable_pass"])} expected, '
      f'{len(base["stable_pass"]) - len(missing)} passed')
if missing:
    print('NOT PASSING:', *missing[:20], sep='\n  ')
    print(r.stdout[-3000:])
    sys.exit(1)
