#!/bin/bash
# Regenerate every evidence file from /verif against /repo's working tree
# (quick tier, VERIF_SEED=1), validate them, run the pinned baseline.
cd /verif
rc=0
for c in C01 C02 C03 C04 C05 C06 C07 C08 C09 C10 C11 C12 C13 C14 C15 C16 C17 C18 C19 C20; do
  VERIF_SEED=${VERIF_SEED:-1} /venv/bin/python -m vt.runner $c --tier quick 2>&1 | grep -v "^   " | tail -2
  [ ${PIPESTATUS[0]} -ne 0 ] && rc=1
done
python3-vt - <<'PY'
import json, jsonschema, glob
sch = json.load(open('/root/.vp/EVIDENCE.schema.json'))
man = json.load(open('/verif/MANIFEST.json'))
lv = {c['property_id']: c['level_claimed']['category'] for c in man['checks']}
for f in sorted(glob.glob('/verif/evidence/*.json')):
    e = json.load(open(f))
    jsonschema.validate(e, sch)
    assert e['level'] == lv[e['property_id']], (f, e['level'])
print('evidence valid:', len(glob.glob('/verif/evidence/*.json')))
jsonschema.validate(man, json.load(open('/root/.vp/MANIFEST.schema.json')))
print('manifest valid')
PY
python3 tools/baseline.py || rc=1
exit $rc
