#!/usr/bin/env python3
"""Sensitivity runs: apply each hand-made mutation (string replacement) to a
scratch worktree of /repo, run the listed checks, report which went red.

  tools/sens.py sens/e2e.json [--only name,...] [--scale 0.25] [--tests]
"""
import argparse, json, os, shutil, subprocess, sys, tempfile, time

ap = argparse.ArgumentParser()
ap.add_argument('file')
ap.add_argument('--only')
ap.add_argument('--scale', default='0.25')
ap.add_argument('--tier', default='quick')
ap.add_argument('--tests', action='store_true',
                help='also run the repository test-suite on the mutant')
ap.add_argument('--out', default=None)
a = ap.parse_args()
muts = json.load(open(a.file))
only = set(a.only.split(',')) if a.only else None
rows = []
for m in muts:
    if only and m['name'] not in only:
        continue
    d = tempfile.mkdtemp(prefix='s3t-sens-', dir='/dev/shm')
    w = d + '/w'
    try:
        subprocess.check_call(['git', '-C', '/repo', 'worktree', 'add', '-q',
                               '--detach', w])
        ok = True
        for e in m['edits']:
            p = os.path.join(w, e['file'])
            s = open(p).read()
            if s.count(e['old']) != 1:
                print(f"!! {m['name']}: pattern matches {s.count(e['old'])}x "
                      f"in {e['file']}")
                ok = False
                break
            open(p, 'w').write(s.replace(e['old'], e['new']))
        if not ok:
            rows.append((m['name'], 'BAD-PATTERN', ''))
            continue
        tests = ''
        if a.tests:
            r = subprocess.run(
                ['/venv/bin/python', '-m', 'pytest', '-q', '-x', '-n', '8',
                 '-p', 'no:cacheprovider', 'tests/unit', 'tests/functional'],
                cwd=w, capture_output=True, text=True)
            tests = 'tests-pass' if r.returncode == 0 else 'TESTS-FAIL'
        out = d + '/out'
        os.makedirs(out)
        env = dict(os.environ, VERIF_REPO=w, VT_OUT=out)
        for chk in m['checks']:
            t0 = time.time()
            import signal
            pr = subprocess.Popen(
                ['/venv/bin/python', '-m', 'vt.runner', chk,
                 '--tier', a.tier, '--scale', a.scale],
                cwd='/verif', env=dict(env, VT_WATCHDOG_S='600'),
                stdout=subprocess.PIPE, stderr=subprocess.PIPE, text=True,
                start_new_session=True)
            try:
                so, se = pr.communicate(timeout=900)
            except subprocess.TimeoutExpired:
                # kill this run's own process group only
                os.killpg(pr.pid, signal.SIGKILL)
                pr.communicate()
                rows.append((m['name'], f'{chk}:HANG', tests, '', 900))
                print(rows[-1], flush=True)
                continue

            class _R:
                pass
            r = _R()
            r.returncode, r.stdout, r.stderr = pr.returncode, so, se
            sigs = [l.strip()[11:] for l in r.stdout.splitlines()
                    if l.strip().startswith('signature:')]
            verdict = {0: 'MISSED', 1: 'caught'}.get(r.returncode,
                                                     f'ERR{r.returncode}')
            if r.returncode not in (0, 1):
                print(r.stderr[-1500:])
            rows.append((m['name'], f'{chk}:{verdict}', tests,
                         '; '.join(sigs)[:160], round(time.time() - t0)))
            print(rows[-1], flush=True)
    finally:
        subprocess.run(['git', '-C', '/repo', 'worktree', 'remove', '--force',
                        w], capture_output=True)
        shutil.rmtree(d, ignore_errors=True)
if a.out:
    json.dump(rows, open(a.out, 'w'), indent=1)
missed = [r for r in rows if 'MISSED' in r[1] or 'BAD' in r[1] or 'HANG' in r[1] or 'ERR' in r[1]]
print(f'\n{len(rows)} runs, {len(missed)} missed/bad')
for r in missed:
    print('  ', r)
