"""F14: with the serial executor (boto3 use_threads=False) a Ctrl-C that
arrives inside an S3 request is lost or mis-announced.

 (a) single-GET download to a file object: KeyboardInterrupt inside
     get_object -> Task.__call__'s finally block submits the final IO task,
     which finds the coordinator not done and sets the result: the future
     reports SUCCESS with nothing written; the interrupt is then swallowed by
     SubmissionTask._main (C03 / C02).
 (b) any final request (put_object here): the finally block announces done
     while no exception is recorded: on_done subscribers run with
     future.done() False and a result() that returns normally, then the
     future turns into a failure (C08 / C03).

Run with cwd = a checkout of s3transfer.  Exit 1 if either is observed."""
import io, os, sys
sys.path.insert(0, os.getcwd())
from s3transfer.manager import TransferManager, TransferConfig
from s3transfer.futures import NonThreadedExecutor
from s3transfer.subscribers import BaseSubscriber


class Events:
    def register_first(self, *a, **k): pass
    register = register_last = unregister = register_first


class Meta:
    events = Events()

    class config:
        request_checksum_calculation = 'when_required'
        signature_version = 's3v4'
    partition = 'aws'


class Client:
    meta = Meta()

    def __init__(self):
        self.calls = []

    def head_object(self, **kw):
        self.calls.append('head_object')
        return {'ContentLength': 5}

    def get_object(self, **kw):
        self.calls.append('get_object')
        raise KeyboardInterrupt()

    def put_object(self, **kw):
        self.calls.append('put_object')
        raise KeyboardInterrupt()


class Sub(BaseSubscriber):
    def __init__(self):
        self.seen = []

    def on_done(self, future, **kw):
        try:
            r = ('returned', future.result())
        except BaseException as e:
            r = ('raised', type(e).__name__)
        self.seen.append((future.done(), r))


bad = []
cfg = TransferConfig()
# (a)
c = Client()
dst = io.BytesIO()
s = Sub()
with TransferManager(c, cfg, executor_cls=NonThreadedExecutor) as m:
    f = m.download('b', 'k', dst, subscribers=[s])
    try:
        out = ('returned', f.result())
    except BaseException as e:
        out = ('raised', type(e).__name__)
print('download:', out, 'written', dst.getvalue(), 'on_done saw', s.seen)
if out[0] == 'returned':
    bad.append('download reported success although get_object raised '
               'KeyboardInterrupt (0 of 5 bytes written)')
# (b)
c = Client()
s = Sub()
with TransferManager(c, cfg, executor_cls=NonThreadedExecutor) as m:
    f = m.upload(io.BytesIO(b'abc'), 'b', 'k', subscribers=[s])
    try:
        out = ('returned', f.result())
    except BaseException as e:
        out = ('raised', type(e).__name__)
print('upload:', out, 'on_done saw', s.seen)
if out[0] == 'returned':
    bad.append('upload reported success although put_object raised')
for (done, r) in s.seen:
    if not done or r[0] == 'returned':
        bad.append(f'on_done ran with done()={done}, result() {r} while the '
                   f'future ends {out}')
for b in bad:
    print('VIOLATED:', b)
sys.exit(1 if bad else 0)
