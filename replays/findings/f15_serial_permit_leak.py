"""F15: BoundedExecutor.submit leaks its semaphore permit when the underlying
executor's submit() raises (an interrupt escaping the NonThreadedExecutor, or
a rejected submission).  With max_request_queue_size=1 and the serial
executor, one Ctrl-C inside a request makes every later transfer on the same
manager hang in semaphore.acquire.

Run with cwd = a checkout of s3transfer.  Exit 1 if the second upload hangs."""
import io, os, sys, threading
sys.path.insert(0, os.getcwd())
from s3transfer.manager import TransferManager, TransferConfig
from s3transfer.futures import NonThreadedExecutor


class Events:
    def register_first(self, *a, **k): pass
    register = register_last = unregister = register_first


class Meta:
    events = Events()

    class config:
        request_checksum_calculation = 'when_required'
        signature_version = 's3v4'
    partition = 'aws'


class Client:
    meta = Meta()
    n = 0

    def put_object(self, **kw):
        Client.n += 1
        if Client.n == 1:
            raise KeyboardInterrupt()
        kw['Body'].read()
        return {}


cfg = TransferConfig(max_request_queue_size=1)
m = TransferManager(Client(), cfg, executor_cls=NonThreadedExecutor)
f1 = m.upload(io.BytesIO(b'abc'), 'b', 'k1')
try:
    f1.result()
    print('first upload: returned')
except BaseException as e:
    print('first upload raised', type(e).__name__)
out = []


def second():
    f2 = m.upload(io.BytesIO(b'abc'), 'b', 'k2')
    out.append(f2.result())


t = threading.Thread(target=second, daemon=True)
t.start()
t.join(5)
if t.is_alive():
    print('VIOLATED: the second upload on the same manager is still blocked '
          'after 5 s (request-executor permit leaked by the interrupted one)')
    sys.exit(1)
print('second upload finished:', out)
sys.exit(0)
