"""Coverage-guided campaign: python -m vt.fuzz <Cxx> <tier> <runs> <seed> <out>

atheris (libFuzzer) mutates a byte string; Hypothesis' `fuzz_one_input` turns
the bytes into a case of the check's own strategy (the bytes are the choice
sequence), and the check's own `execute` (same oracle as the random tier)
judges it.  Coverage feedback comes from bytecode instrumentation of the
`s3transfer` package only.  Nothing is raised into libFuzzer: violations are
collected like in the Hypothesis shards, so the campaign continues past the
first one; the parent re-executes every reported case WITHOUT instrumentation
and keeps only what reproduces there.

The process never returns from atheris.Fuzz() (libFuzzer calls _exit), so the
statistics are written to <out> every few hundred executions and at the
requested run count.
"""
import json
import os
import sys
import traceback


def patch_bytestring_provider():
    """Hypothesis 6.168's BytestringProvider.draw_integer compares the raw
    bits with [min_value, max_value] without adding min_value, so every
    integers(a, b) with a > 2**bits(b-a) rejects ALL byte strings (and most
    others reject most).  For the campaign the draw is made total instead:
    min_value + bits % (span + 1).  Only the decoding of fuzzer bytes is
    affected; the strategies and the oracle are untouched."""
    from hypothesis.internal.conjecture import providers as P

    def draw_integer(self, min_value=None, max_value=None, *, weights=None,
                     shrink_towards=0):
        if min_value is None and max_value is None:
            min_value, max_value = -(2 ** 127), 2 ** 127 - 1
        elif min_value is None:
            min_value = max_value - 2 ** 64
        elif max_value is None:
            max_value = min_value + 2 ** 64
        if min_value == max_value:
            return min_value
        span = max_value - min_value
        return min_value + self._draw_bits(span.bit_length()) % (span + 1)
    P.BytestringProvider.draw_integer = draw_integer


def main(argv):
    pid, tier, runs, seed, out = argv[1], argv[2], int(argv[3]), \
        int(argv[4]), argv[5]
    # safety net only (a campaign is bounded by its execution count; when the
    # wall-clock bound hits first the campaign is cut short, which is
    # reported in the evidence and is never a violation)
    max_time = int(os.environ.get('VT_FUZZ_MAX_S',
                                  '150' if tier == 'quick' else '2400'))
    os.environ['PYTHONHASHSEED'] = '0'
    import atheris
    from . import setup_paths
    setup_paths()
    # botocore first (uninstrumented), then the package under test
    import botocore.session  # noqa
    with atheris.instrument_imports(include=['s3transfer']):
        import importlib
        if pid == 'C20':
            from . import crt20
            crt20.install_stub()
        for m in ('s3transfer', 's3transfer.utils', 's3transfer.futures',
                  's3transfer.tasks', 's3transfer.bandwidth',
                  's3transfer.download', 's3transfer.upload',
                  's3transfer.copies', 's3transfer.delete',
                  's3transfer.manager', 's3transfer.subscribers',
                  's3transfer.processpool', 's3transfer.crt'):
            try:
                importlib.import_module(m)
            except Exception:
                pass
    from hypothesis import given, settings, HealthCheck
    patch_bytestring_provider()
    from .checks import get_check
    from .runner import ShardStats, canon
    chk = get_check(pid)
    chk.scale = float(os.environ.get('VT_SCALE', '1'))
    stats = ShardStats()
    strat = chk.strategy(tier)
    state = {'execs': 0}

    def dump():
        d = stats.dump()
        d['extra'] = {'fuzz_execs': state['execs']}
        tmp = out + '.tmp'
        with open(tmp, 'w') as f:
            json.dump(d, f, default=repr)
        os.replace(tmp, out)

    @settings(database=None, deadline=None,
              suppress_health_check=list(HealthCheck))
    @given(strat)
    def drive(case):
        try:
            res = chk.execute(case)
        except Exception:
            if len(stats.errors) < 3:
                stats.errors.append(traceback.format_exc() + '\nCASE: '
                                    + canon(case)[:6000])
            return
        stats.add(case, res)

    fuzz_one = drive.hypothesis.fuzz_one_input

    def one(data):
        state['execs'] += 1
        try:
            fuzz_one(data)
        except Exception:
            if len(stats.errors) < 3:
                stats.errors.append(traceback.format_exc())
        n = state['execs']
        if n % 250 == 0 or n >= runs:
            dump()

    dump()
    # seed corpus: a few pseudo-random buffers long enough to decode into
    # whole cases (an empty corpus only ever yields rejected prefixes for the
    # larger strategies); deterministic in the seed
    import random
    corpus = out + '.corpus'
    os.makedirs(corpus, exist_ok=True)
    rnd = random.Random(seed)
    for i in range(24):
        ln = (64, 512, 4096)[i % 3]
        with open(os.path.join(corpus, f'seed{i:02d}'), 'wb') as f:
            f.write(rnd.randbytes(ln))
    atheris.Setup([sys.argv[0], corpus, f'-runs={runs}', f'-seed={seed % 2**31 or 1}',
                   '-max_len=8192', '-len_control=0',
                   f'-max_total_time={max_time}', '-rss_limit_mb=0', '-timeout=3600',
                   '-print_final_stats=1',
                   f'-artifact_prefix={out}.art-'], one)
    atheris.Fuzz()


if __name__ == '__main__':
    main(sys.argv)
