"""C19: the process-pool downloader replayed in one process under the
deterministic scheduler.

The real ProcessPoolDownloader / GetObjectSubmitter / GetObjectWorker /
TransferMonitor / TransferState objects run unmodified; only the names through
which s3transfer.processpool reaches the outside world are rebound
(multiprocessing -> controlled queues, threading -> shim, signal -> no-op,
TransferMonitorManager -> in-process holder, ClientFactory -> fake client,
OSUtils / open -> in-memory file system) and BaseS3TransferProcess.start/join
spawn / join controlled threads running the class's own run().

Case JSON:
  cfg        {'multipart_threshold', 'multipart_chunksize', 'workers'}
  downloads  [{'size', 'preexist', 'expected_size': bool, 'extra': {}}]
  faults / scripts / cancels / sched   as in vt/e2e.py
  end        {'how': 'shutdown'|'with'|'with_kbi'|'with_exc', 'at': step,
              'wait_results': bool}
"""
import contextlib

from . import detsched
from .detsched import Scheduler, SchedAbort, make_policy, HarnessError
from .fakes3 import FakeS3, Trace, FaultPlan, pattern_bytes
from . import fakefs

BUCKET = 'bkt'
DIR = '/d'


class DQueue:
    def __init__(self, sched, maxsize=0):
        self._s = sched
        self._q = []
        self._max = maxsize or 0

    def put(self, item, block=True, timeout=None):
        self._s.point(lambda: not self._max or len(self._q) < self._max,
                      'queue.put')
        self._q.append(item)

    def get(self, block=True, timeout=None):
        self._s.point(lambda: bool(self._q), 'queue.get')
        return self._q.pop(0)


class MonitorProxy:
    """Stands for the multiprocessing proxy of the TransferMonitor: every
    call is a scheduling point before and after, and is logged."""

    def __init__(self, sched, monitor, log, hooks):
        self.__dict__['_s'] = sched
        self.__dict__['_m'] = monitor
        self.__dict__['_log'] = log
        self.__dict__['_hooks'] = hooks

    def _connect(self):
        pass

    def __getattr__(self, name):
        target = getattr(self._m, name)
        if not callable(target):
            return target
        s = self._s
        log = self._log
        hooks = self._hooks

        def call(*a, **kw):
            s.point(None, f'monitor.{name}')
            for h in hooks:
                h(name, a, 'before')
            interruptible = name == 'poll_for_result'
            r = target(*a, **kw)
            log.append((s.step, s.cur.tid, name, a, r))
            if not s.aborting:
                s.point(None, f'monitor.{name}.ret')
            return r
        return call


class Result:
    pass


def run_pp_case(case):
    import s3transfer.processpool as pp
    sched = Scheduler(make_policy(case.get('sched')),
                      max_steps=case.get('max_steps', 40000))
    trace = Trace(sched)
    faults = FaultPlan(case.get('faults'), trace)
    fs = fakefs.MemFS(sched, trace, faults)
    fs.wbuf = case.get('fs_buffer') or 0
    svc = FakeS3(sched, trace, faults, case.get('scripts'),
                 strict_params=case.get('strict', True))
    R = Result()
    R.case = case
    R.sched = sched
    R.trace = trace
    R.fs = fs
    R.svc = svc
    R.faults = faults
    R.monitor_log = []
    R.transfers = []
    R.end = {}
    R.harness_error = None
    R.done_snapshots = {}
    R.cancel_log = []
    R.procs = []
    R.partial = []
    cfg = case['cfg']

    class FakeManager:
        def __init__(self):
            self._monitor = None

        def start(self, initializer=None):
            pass

        def TransferMonitor(self):
            self._monitor = pp.TransferMonitor()
            R.monitor = self._monitor
            return MonitorProxy(sched, self._monitor, R.monitor_log,
                                [on_monitor_call])

        def shutdown(self):
            R.end['manager_shutdown_step'] = sched.step

    class FakeClientFactory:
        def __init__(self, client_kwargs=None):
            pass

        def create_client(self):
            return svc.client('pp')

    class MP:
        @staticmethod
        def Queue(maxsize=0):
            return DQueue(sched, maxsize)

    class Sig:
        SIGINT = 2
        SIG_IGN = 1

        @staticmethod
        def signal(*a):
            return None

    def mem_open(filename, mode='r'):
        sched.point(None, 'fs.open')
        exc = faults.visit('fs.open', filename)
        if exc is not None:
            raise exc
        return fakefs.MemFile(fs, filename, mode)

    def on_monitor_call(name, args, when):
        if name == 'notify_done' and when == 'before':
            tid = args[0]
            r = R.transfers[tid] if tid < len(R.transfers) else None
            mon = R.monitor
            R.done_snapshots[tid] = {
                'step': sched.step,
                'listing': fs.listing(),
                'dest': (bytes(fs.files[r['path']])
                         if r and r['path'] in fs.files else None),
                'exception': mon.get_exception(tid),
                'jobs_remaining': mon._transfer_states[tid].jobs_to_complete,
                'jobs_expected': next(
                    (a[1] for (_, _, n, a, _) in R.monitor_log
                     if n == 'notify_expected_jobs_to_complete'
                     and a[0] == tid), None),
            }

    def watch(fs_, what, path):
        for r in R.transfers:
            p = r['path']
            cur = fs_.files.get(p)
            prev = r['previous']
            if cur is None:
                okv = prev is None
            else:
                b = bytes(cur)
                okv = (prev is not None and b == prev) or b == r['expect']
            if not okv and not r.get('_flag'):
                r['_flag'] = True
                R.partial.append((r['i'], sched.step, what, path,
                                  None if cur is None else len(cur)))
    fs.watch.append(watch)

    ntrans = len(case['downloads'])

    def raw_done(r):
        # predicates must not go through the proxy (it yields)
        f = r['future']
        if f is None:
            return True
        return R.monitor.is_done(f.meta.transfer_id)

    def all_done():
        return len(R.transfers) == ntrans and all(
            raw_done(r) for r in R.transfers)

    def canceller(c0):
        c = dict(c0)
        R.cancel_log.append(c)

        def run():
            ti = c['t']
            sched.point(lambda: len(R.transfers) > ti and
                        R.transfers[ti]['future'] is not None and
                        (sched.step >= c['at'] or all_done()),
                        'canceller.wait', urgent=True)
            f = R.transfers[ti]['future']
            c['done_before'] = raw_done(R.transfers[ti])
            c['step'] = sched.step
            f.cancel()
            c['end_step'] = sched.step
        return run

    def start_proc(self):
        t = sched.spawn(self.run, type(self).__name__, role='process')
        self._vt_thread = t
        R.procs.append(t)
        sched.point(None, 'process.start')

    def join_proc(self, timeout=None):
        t = self._vt_thread
        sched.point(lambda: not t.alive, 'process.join', interruptible=True)

    def main():
        for i, d in enumerate(case['downloads']):
            size = d['size']
            data = pattern_bytes(size, 17 * i + 3)
            key = f'k{i}'
            svc.objects[(BUCKET, key)] = data
            path = f'{DIR}/f{i}'
            pre = d.get('preexist')
            if pre is not None:
                fs.files[path] = bytearray(pattern_bytes(pre, 90 + i))
            R.transfers.append({
                'i': i, 'key': key, 'path': path, 'expect': data,
                'previous': bytes(fs.files[path]) if path in fs.files
                else None, 'future': None, 'outcome': None, 'spec': d})
        config = pp.ProcessTransferConfig(
            multipart_threshold=cfg['multipart_threshold'],
            multipart_chunksize=cfg['multipart_chunksize'],
            max_request_processes=cfg['workers'])
        dl = pp.ProcessPoolDownloader(client_kwargs={}, config=config)
        R.downloader = dl
        end = dict(case.get('end') or {'how': 'shutdown'})
        R.end.update(end)
        how = end.get('how', 'shutdown')
        for c in case.get('cancels') or []:
            if c['t'] < ntrans:
                sched.spawn(canceller(c), f'canceller{c["t"]}',
                            role='canceller')
        kbi = case.get('kbi')
        if kbi:
            sched.cur.kbi_at = kbi['at']

        class UserExc(Exception):
            pass

        def body():
            for r in R.transfers:
                d = r['spec']
                try:
                    r['future'] = dl.download_file(
                        BUCKET, r['key'], r['path'],
                        extra_args=(d.get('extra') or {}),
                        expected_size=(d['size'] if d.get('expected_size')
                                       else None))
                except SchedAbort:
                    raise
                except KeyboardInterrupt:
                    raise
                except Exception as e:  # noqa
                    r['submit_exc'] = e
            if end.get('wait_results'):
                for r in R.transfers:
                    if r['future'] is None:
                        continue
                    try:
                        r['future'].result()
                    except SchedAbort:
                        raise
                    except KeyboardInterrupt:
                        raise
                    except Exception:
                        pass
            at = end.get('at')
            if at is not None:
                sched.point(lambda: sched.step >= at or all_done(),
                            'user.wait_step', urgent=True)

        try:
            if how.startswith('with'):
                try:
                    with dl:
                        body()
                        R.end['cancel_step'] = sched.step
                        R.end['done_at_cancel'] = [
                            raw_done(r) if r['future'] else None
                            for r in R.transfers]
                        R.end['uninterrupted'] = detsched.policy_quiet(
                            sched.policy, sched)
                        if how == 'with_kbi':
                            raise KeyboardInterrupt()
                        if how == 'with_exc':
                            raise UserExc('boom')
                except UserExc:
                    R.end['raised'] = 'UserExc'
                except KeyboardInterrupt:
                    R.end['raised'] = 'KeyboardInterrupt'
            else:
                try:
                    body()
                except KeyboardInterrupt:
                    R.end['body_kbi'] = sched.step
                try:
                    dl.shutdown()
                    R.end['returned'] = True
                except KeyboardInterrupt:
                    R.end['raised'] = 'KeyboardInterrupt'
            R.end['return_step'] = sched.step
            R.end['done_at_return'] = [
                raw_done(r) if r['future'] else None
                for r in R.transfers]
            R.end['procs_alive_at_return'] = sum(
                1 for t in R.procs if t.alive)
            sched.cur.kbi_at = None
            for r in R.transfers:
                f = r['future']
                if f is None:
                    continue
                out = {}
                try:
                    f.result()
                    out['ok'] = True
                except SchedAbort:
                    raise
                except BaseException as e:  # noqa
                    out['ok'] = False
                    out['exc'] = e
                r['outcome'] = out
        finally:
            sched.cur.kbi_at = None
            if not sched.aborting and any(t.alive for t in R.procs):
                # never leave controlled threads behind
                R.end['forced_shutdown'] = True
                try:
                    dl._started = True
                    dl.shutdown()
                except SchedAbort:
                    raise
                except BaseException:
                    pass

    saved = []

    def rebind(obj, name, val):
        saved.append((obj, name, getattr(obj, name, None),
                      hasattr(obj, name)))
        setattr(obj, name, val)

    shim = detsched.ThreadingShim(sched)
    try:
        rebind(pp, 'threading', shim)
        rebind(pp, 'multiprocessing', MP)
        rebind(pp, 'signal', Sig)
        rebind(pp, 'TransferMonitorManager', FakeManager)
        rebind(pp, 'ClientFactory', FakeClientFactory)
        from s3transfer.utils import OSUtils as RealOSUtils
        rebind(pp, 'OSUtils', lambda: fakefs.make_osutils(fs, RealOSUtils))
        rebind(pp, 'open', mem_open)
        rebind(pp.BaseS3TransferProcess, 'start', start_proc)
        rebind(pp.BaseS3TransferProcess, 'join', join_proc)
        if case.get('io_chunk'):
            # the worker's read size (2 MiB) scaled down, like the adjuster
            # limits, so that full-size reads and short reads both occur
            rebind(pp.GetObjectWorker, '_IO_CHUNKSIZE', case['io_chunk'])
        try:
            sched.run(main)
        except HarnessError as e:
            R.harness_error = e
    finally:
        for obj, name, val, had in reversed(saved):
            if had:
                setattr(obj, name, val)
            else:
                try:
                    delattr(obj, name)
                except AttributeError:
                    pass
    for name, e in sched.errors:
        R.harness_error = R.harness_error or HarnessError(
            f'uncaught {type(e).__name__} in thread {name}: {e!r}')
    return R


# ------------------------------------------------------------------ oracle
def oracle_c19(R):
    from s3transfer.exceptions import CancelledError, RetriesExceededError
    from .oracles import retryable_families
    v = []
    s = R.sched
    if s.deadlock:
        v.append(('c19:deadlock:' + ','.join(sorted(
            {f'{x[1].rstrip("0123456789")}@{x[2]}' for x in s.deadlock})),
            f'deadlock {s.deadlock}'))
        return v
    if s.budget_exceeded:
        return v
    for (i, step, what, path, n) in R.partial:
        v.append((f'c19:partial-visible:{what}',
                  f'download {i}: after {what}({path}) at step {step} the '
                  f'destination held {n} bytes, neither previous content '
                  f'nor the complete object'))
    interrupted = bool(s.kbi_delivered)
    end = R.end
    if not interrupted and (end.get('returned') or str(
            end.get('how', '')).startswith('with')):
        if any(d is False for d in end.get('done_at_return') or []):
            v.append(('c19:shutdown-returned-before-done',
                      f'futures done={end.get("done_at_return")} when '
                      f'shutdown returned'))
        if end.get('procs_alive_at_return'):
            v.append(('c19:processes-alive-after-shutdown',
                      f'{end["procs_alive_at_return"]} submitter/worker '
                      f'threads alive after shutdown returned'))
    all_excs = [e for (_, _, e, _) in R.trace.delivered] + [
        c['exc'] for c in R.trace.calls if c['exc'] is not None]
    for r in R.transfers:
        if r['future'] is None:
            continue
        i = r['i']
        snap = R.done_snapshots.get(i)
        o = r['outcome']
        if snap is None:
            if o is not None:
                v.append(('c19:done-without-notify',
                          f'download {i} finished without notify_done'))
            continue
        exp = snap['jobs_expected']
        if exp is not None and snap['jobs_remaining'] > 0:
            v.append(('c19:done-before-all-jobs',
                      f'download {i} was marked done while '
                      f'{snap["jobs_remaining"]} of {exp} jobs were not '
                      f'accounted for'))
        temps = [x for x in snap['listing'] if x.startswith(r['path'] + '.')]
        if temps:
            v.append(('c19:temp-file-at-done',
                      f'download {i}: {temps} exist when the future '
                      f'becomes done'))
        if snap['exception'] is None:
            if snap['dest'] != r['expect']:
                sym = ('missing' if snap['dest'] is None else
                       'short' if len(snap['dest']) < len(r['expect']) else
                       'long' if len(snap['dest']) > len(r['expect'])
                       else 'corrupt')
                v.append((f'c19:success-dest-{sym}',
                          f'download {i} became done without an exception '
                          f'but the destination is {sym}'))
        else:
            e = snap['exception']
            ok = any(e is x for x in all_excs) or isinstance(
                e, CancelledError)
            if isinstance(e, RetriesExceededError):
                ok = any(e.last_exception is x for x in all_excs)
            if not ok:
                v.append((f'c19:foreign-exception:{type(e).__name__}',
                          f'download {i} failed with {e!r}, which is none '
                          f'of the failures that occurred'))
            if snap['dest'] != r['previous'] and not (
                    snap['dest'] == r['expect'] and isinstance(
                        e, CancelledError)):
                v.append(('c19:failure-clobbered-destination',
                          f'download {i} failed with {type(e).__name__} but '
                          f'the destination changed'))
        # delivered, non-absorbed faults must not end in success
        fam = retryable_families()
        hard = []
        per_range = {}
        for (step, site, exc, info) in R.trace.delivered:
            k = info.get('key')
            mine = (k == r['key'] or (isinstance(k, tuple) and
                                      k[0] == r['key']) or
                    (isinstance(k, str) and (k == r['path'] or
                                             k.startswith(r['path'] + '.'))))
            if not mine:
                continue
            if isinstance(exc, fam) and site in (
                    'stream.read', 'stream.script', 's3.get_object'):
                rng = None
                if site == 's3.get_object':
                    for c in R.trace.calls:
                        if c['exc'] is exc:
                            rng = c['kwargs'].get('Range')
                else:
                    rng = k[1]
                per_range.setdefault(rng, []).append(exc)
            else:
                hard.append((site, exc))
        exhausted = [x for lst in per_range.values() if len(lst) >= 5
                     for x in lst]
        if (hard or exhausted) and snap['exception'] is None and \
                step_before(R, hard, exhausted, snap['step']):
            v.append(('c19:false-success:' + ','.join(sorted(
                {s_ for s_, _ in hard}) or ['retries']),
                f'download {i} became done without an exception although '
                f'faults were delivered'))
        for rng, lst in per_range.items():
            n = sum(1 for c in R.trace.calls if c['op'] == 'get_object'
                    and c['key'] == r['key']
                    and c['kwargs'].get('Range') == rng)
            if n > 5:
                v.append(('c19:too-many-gets',
                          f'{n} GetObject for range {rng} (max 5 attempts)'))
    # Ctrl-C inside the with-block cancels the unfinished ones
    if end.get('how') == 'with_kbi':
        dac = end.get('done_at_cancel') or []
        for r in R.transfers:
            i = r['i']
            if i < len(dac) and dac[i] is False and r['outcome']:
                o = r['outcome']
                has_fault = any(True for (_, site, exc, info) in
                                R.trace.delivered)
                if o.get('ok') and not has_fault and \
                        end.get('uninterrupted') and not R.cancel_log:
                    # the user thread ran from the Ctrl-C to the cancel
                    # notification without any other thread running, so the
                    # download cannot have finished in between
                    v.append(('c19:kbi-did-not-cancel',
                              f'download {i} was unfinished when Ctrl-C left '
                              f'the with-block, yet it succeeded'))
                elif o.get('ok') and not has_fault:
                    snap = R.done_snapshots.get(i)
                    # allowed only if it raced completion: complete dest
                    if snap and snap['dest'] != r['expect']:
                        v.append(('c19:kbi-success-incomplete',
                                  f'download {i}'))
                elif not o.get('ok') and not isinstance(
                        o.get('exc'), CancelledError) and not has_fault:
                    v.append((f'c19:kbi-not-cancelled:'
                              f'{type(o.get("exc")).__name__}',
                              f'download {i} was unfinished at Ctrl-C and '
                              f'ended with {o.get("exc")!r}'))
    return v


def step_before(R, hard, exhausted, step):
    """True if some non-absorbed fault was delivered before `step`."""
    ids = {id(e) for _, e in hard} | {id(e) for e in exhausted}
    for (st, site, exc, info) in R.trace.delivered:
        if id(exc) in ids and st <= step:
            return True
    return False
