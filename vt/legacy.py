"""Legacy front-end (s3transfer.S3Transfer.upload_file / download_file).

The legacy classes bind concurrent.futures.ThreadPoolExecutor and queue.Queue
at definition time, so they run on REAL threads under the OS schedule; the
oracles used for them are schedule-independent (bytes, request arguments,
multipart life cycle, directory state checked inside the fake file-system
operations).  No schedule claim is made for the legacy front-end (DESIGN 3.10).

Case JSON: {'kind': 'legacy', 'op': 'upload'|'download', 'size', 'threshold',
 'chunk', 'conc', 'attempts', 'preexist', 'extra': {...}, 'faults': [...],
 'scripts': {...}}
"""
import threading

from .fakes3 import FakeS3, Trace, FaultPlan, pattern_bytes
from . import fakefs

BUCKET = 'bkt'


class _Cur(threading.local):
    tid = 0
    role = 'legacy'


class NullSched:
    """Scheduler stand-in for real-thread runs: points are no-ops."""

    def __init__(self):
        self.step = 0
        self.clock = 0.0
        self.aborting = False
        self.unbilled = set()
        self._lock = threading.Lock()
        self._ids = {}
        self.cur = self

    @property
    def tid(self):
        i = threading.get_ident()
        with self._lock:
            if i not in self._ids:
                self._ids[i] = len(self._ids)
            return self._ids[i]

    role = 'legacy'

    def point(self, pred=None, what='', **kw):
        with self._lock:
            self.step += 1
        if pred is not None and not pred():
            raise RuntimeError('blocking point in a real-thread run')


class LockedFaultPlan(FaultPlan):
    def __init__(self, entries, trace):
        super().__init__(entries, trace)
        self._l = threading.RLock()

    def visit(self, site, key=None, phase='before'):
        with self._l:
            return super().visit(site, key, phase)


def make_legacy_osutils(fs):
    import s3transfer

    class LegacyFakeOSUtils(s3transfer.OSUtils):
        def get_file_size(self, filename):
            exc = fs.faults.visit('fs.stat', filename)
            if exc is not None:
                raise exc
            if filename not in fs.files:
                raise FileNotFoundError(2, 'No such file', filename)
            return len(fs.files[filename])

        def open_file_chunk_reader(self, filename, start_byte, size,
                                   callback):
            f = self.open(filename, 'rb')
            full = len(fs.files[filename])
            return s3transfer.ReadFileChunk(
                f, start_byte, size, full, callback, enable_callback=False)

        def open(self, filename, mode):
            exc = fs.faults.visit('fs.open', filename)
            if exc is not None:
                raise exc
            f = fakefs.MemFile(fs, filename, mode)
            fs.trace.ev('fs.open', path=filename, mode=mode)
            return f

        def remove_file(self, filename):
            if filename in fs.files:
                del fs.files[filename]
                fs.trace.ev('fs.remove', path=filename)
                fs.mutated('remove', filename)

        def rename_file(self, current_filename, new_filename):
            exc = fs.faults.visit('fs.rename', new_filename)
            if exc is not None:
                raise exc
            fs.files[new_filename] = fs.files.pop(current_filename)
            fs.trace.ev('fs.rename', src=current_filename, dst=new_filename)
            fs.mutated('rename', new_filename)
    return LegacyFakeOSUtils()


class Result:
    pass


def run_legacy_case(case, timeout=30.0):
    import s3transfer
    sched = NullSched()
    trace = Trace(sched)
    faults = LockedFaultPlan(case.get('faults'), trace)
    fs = fakefs.MemFS(sched, trace, faults)
    fs.wbuf = case.get('fs_buffer') or 0
    svc = FakeS3(sched, trace, faults, case.get('scripts'),
                 strict_params=case.get('strict', True))
    R = Result()
    R.case = case
    R.sched = sched
    R.trace = trace
    R.fs = fs
    R.svc = svc
    R.partial = []
    R.hang = False
    size = case['size']
    data = pattern_bytes(size, 11)
    key = 'k0'
    path = '/d/f0'
    t = {'i': 0, 'key': key, 'path': path, 'expect': data, 'outcome': None,
         'type': case['op'], 'progress': []}
    R.transfers = [t]
    if case['op'] == 'upload':
        fs.files[path] = bytearray(data)
    else:
        svc.objects[(BUCKET, key)] = data
        pre = case.get('preexist')
        if pre is not None:
            fs.files[path] = bytearray(pattern_bytes(pre, 55))
    t['previous'] = bytes(fs.files[path]) if path in fs.files else None

    def watch(fs_, what, p):
        if case['op'] != 'download':
            return
        cur = fs_.files.get(path)
        prev = t['previous']
        if cur is None:
            okv = prev is None
        else:
            b = bytes(cur)
            okv = (prev is not None and b == prev) or b == data
        if not okv and not t.get('_flag'):
            t['_flag'] = True
            R.partial.append((what, p, None if cur is None else len(cur)))
    fs.watch.append(watch)

    config = s3transfer.TransferConfig(
        multipart_threshold=case['threshold'],
        multipart_chunksize=case['chunk'],
        max_concurrency=case.get('conc', 2),
        num_download_attempts=case.get('attempts', 2),
        max_io_queue=1000)
    client = svc.client('legacy')
    R.client = client
    tr = s3transfer.S3Transfer(client, config, make_legacy_osutils(fs))
    extra = dict(case.get('extra') or {})
    t['extra_sent'] = extra

    def cb(n):
        t['progress'].append(n)

    def body():
        try:
            if case['op'] == 'upload':
                tr.upload_file(path, BUCKET, key, callback=cb,
                               extra_args=extra)
            else:
                tr.download_file(BUCKET, key, path, extra_args=extra,
                                 callback=cb)
            t['outcome'] = {'ok': True}
        except BaseException as e:  # noqa
            t['outcome'] = {'ok': False, 'exc': e}
    th = threading.Thread(target=body, daemon=True)
    th.start()
    th.join(timeout)
    if th.is_alive():
        R.hang = True
    return R


def oracle_legacy(R, props):
    """props: subset of {'C01','C02','C05','C06','C14'} to judge."""
    import re
    v = []
    if R.hang:
        return v     # legacy hangs are outside the listed properties
    t = R.transfers[0]
    o = t['outcome']
    case = R.case
    if o is None:
        return v
    size = case['size']
    multi = size >= case['threshold']
    ups = list(R.svc.uploads.values())
    if case['op'] == 'upload':
        if 'C01' in props and o.get('ok'):
            got = R.svc.objects.get((BUCKET, t['key']))
            if got != t['expect']:
                v.append(('legacy:c01:upload:object-mismatch',
                          f'legacy upload_file succeeded, object has '
                          f'{None if got is None else len(got)} bytes, file '
                          f'{size}'))
            for u in ups:
                if u.completed != 1:
                    v.append(('legacy:c01:complete-count',
                              f'complete applied {u.completed}x'))
                parts = getattr(u, 'final_parts', [])
                nums = [p['PartNumber'] for p in parts]
                if nums != list(range(1, len(nums) + 1)):
                    v.append(('legacy:c01:part-numbers', f'{nums}'))
                for p in parts:
                    have = u.parts.get(p['PartNumber'])
                    if have is None or have['etag'] != p.get('ETag'):
                        v.append(('legacy:c01:etag', f'{p}'))
        if 'C14' in props and o.get('ok'):
            if bool(ups) != multi:
                v.append(('legacy:c14:upload:mode',
                          f'size {size} threshold {case["threshold"]}: '
                          f'multipart={bool(ups)}'))
            for u in ups:
                parts = getattr(u, 'final_parts', [])
                lens = [len(u.parts[p['PartNumber']]['data']) for p in parts]
                c = case['chunk']
                if sum(lens) != size or any(
                        x != c for x in lens[:-1]) or (
                        lens and not (0 < lens[-1] <= c)):
                    v.append(('legacy:c14:upload:part-sizes',
                              f'part sizes {lens} for size {size} chunk {c}'))
        if 'C05' in props:
            for u in ups:
                if not u.delivered:
                    continue
                aborts = [c for c in u.log if c['op'] ==
                          'abort_multipart_upload']
                completes = [c for c in u.log if c['op'] ==
                             'complete_multipart_upload' and c['applied']]
                if o.get('ok'):
                    if len(completes) != 1 or aborts:
                        v.append(('legacy:c05:success-life-cycle',
                                  f'completes {len(completes)} aborts '
                                  f'{len(aborts)}'))
                else:
                    if not aborts:
                        site = sorted({s for (_, s, _, _)
                                       in R.trace.delivered})
                        v.append((f'legacy:c05:left-open:{",".join(site)}',
                                  f'legacy upload_file failed with '
                                  f'{type(o.get("exc")).__name__} but no '
                                  f'abort was issued for {u.id} (state '
                                  f'{u.state}; faults {site})'))
                    else:
                        a0 = min(c['begin'] for c in aborts)
                        late = [c for c in u.log
                                if c['op'] in ('upload_part',
                                               'complete_multipart_upload')
                                and (c['end'] is None or c['end'] > a0)]
                        if late:
                            v.append(('legacy:c05:abort-before-calls-'
                                      'returned', f'{late[0]["op"]}'))
    else:
        if 'C02' in props and o.get('ok'):
            got = R.fs.files.get(t['path'])
            got = bytes(got) if got is not None else None
            if got != t['expect']:
                sym = ('missing' if got is None else 'short' if len(got) <
                       size else 'long' if len(got) > size else 'corrupt')
                retry = ':retry' if any(
                    s in ('stream.read', 'stream.script')
                    for (_, s, _, _) in R.trace.delivered) else ''
                v.append((f'legacy:c02:download:{"ranged" if multi else "single"}'
                          f'{retry}:dest-{sym}',
                          f'legacy download_file succeeded, destination is '
                          f'{sym} (object {size} bytes)'))
            gets = {}
            for c in R.trace.calls:
                if c['op'] == 'get_object':
                    k = c['kwargs'].get('Range')
                    gets[k] = gets.get(k, 0) + 1
            if any(n > case.get('attempts', 2) for n in gets.values()):
                v.append(('legacy:c02:too-many-gets', f'{gets}'))
        if 'C06' in props:
            for (what, p, n) in R.partial:
                v.append((f'legacy:c06:partial-visible:{what}',
                          f'after {what}({p}) the destination held {n} '
                          f'bytes: neither previous content nor the object'))
            temps = [x for x in R.fs.listing()
                     if x.startswith(t['path'] + '.')]
            if temps:
                v.append(('legacy:c06:temp-left', f'{temps} remain'))
            if not o.get('ok'):
                cur = R.fs.files.get(t['path'])
                cur = bytes(cur) if cur is not None else None
                if cur != t['previous']:
                    v.append(('legacy:c06:failure-clobbered',
                              'previous destination content not preserved'))
        if 'C14' in props and o.get('ok'):
            rngs = []
            for c in R.trace.calls:
                if c['op'] == 'get_object' and c.get('attempt') == 0 and \
                        'Range' in c['kwargs']:
                    m = re.match(r'^bytes=(\d+)-(\d*)$', c['kwargs']['Range'])
                    if m:
                        rngs.append((int(m.group(1)),
                                     int(m.group(2)) if m.group(2) else None))
            if bool(rngs) != multi:
                v.append(('legacy:c14:download:mode',
                          f'size {size} threshold {case["threshold"]}: '
                          f'ranged={bool(rngs)}'))
            rngs.sort()
            nxt = 0
            for k, (a, b) in enumerate(rngs):
                if a != nxt:
                    v.append(('legacy:c14:download:ranges', f'{rngs}'))
                    break
                nxt = size if b is None else b + 1
            else:
                if rngs and nxt != size:
                    v.append(('legacy:c14:download:ranges', f'{rngs}'))
    return v
