"""C16: DeferQueue against a reference model over delivery histories.

A history is what the download loop can produce: disjoint parts tiling [0,n);
each part has 1..k attempts; every attempt delivers consecutive chunks from
the part's first byte, cut at arbitrary places and stopping anywhere (the last
attempt is complete); attempts of one part are sequential, chunks of different
parts interleave arbitrarily.

History JSON: {'n': n, 'parts': [[start, [[len, len, ...] per attempt]]...],
               'merge': [part index, ...]}  (merge order of chunk deliveries)
"""
import itertools

from hypothesis import strategies as st

from ..fakes3 import pattern_bytes


def flatten(history):
    """-> list of (offset, length) deliveries in history order."""
    parts = history['parts']
    seqs = []
    for start, attempts in parts:
        seq = []
        for cuts in attempts:
            off = start
            for ln in cuts:
                seq.append((off, ln))
                off += ln
        seqs.append(seq)
    pos = [0] * len(seqs)
    out = []
    for p in history['merge']:
        p = p % len(seqs)
        # choose the p-th part that still has chunks
        live = [i for i in range(len(seqs)) if pos[i] < len(seqs[i])]
        if not live:
            break
        i = live[p % len(live)]
        out.append(seqs[i][pos[i]])
        pos[i] += 1
    for i in range(len(seqs)):
        while pos[i] < len(seqs[i]):
            out.append(seqs[i][pos[i]])
            pos[i] += 1
    return out


def run_history(history, make_queue=None):
    """Returns (violation or None, info)."""
    if make_queue is None:
        from s3transfer.download import DeferQueue
        make_queue = DeferQueue
    n = history['n']
    obj = pattern_bytes(n, 3)
    q = make_queue()
    delivered = [False] * n
    out_len = 0
    redelivery = False
    ooo = False
    deliveries = flatten(history)
    for step, (off, ln) in enumerate(deliveries):
        data = obj[off:off + ln]
        if any(delivered[off:off + ln]):
            redelivery = True
        if off > out_len:
            ooo = True
        for k in range(off, off + ln):
            delivered[k] = True
        prefix = 0
        while prefix < n and delivered[prefix]:
            prefix += 1
        try:
            writes = q.request_writes(off, data)
        except Exception as e:  # noqa
            return (f'exception:{type(e).__name__}',
                    f'request_writes({off},{ln}B) raised {e!r}'), {}
        for w in writes:
            wo, wd = w['offset'], w['data']
            if len(wd) == 0:
                continue
            if wo != out_len:
                sym = 'rewrite' if wo < out_len else 'gap'
                return (f'{sym}', f'delivery #{step} ({off},{ln}): write at '
                        f'offset {wo} but {out_len} bytes were written so '
                        f'far (history {deliveries})'), {}
            if bytes(wd) != obj[wo:wo + len(wd)]:
                return ('wrong-bytes', f'delivery #{step}: write at {wo} '
                        f'carries bytes that are not the object bytes at '
                        f'that offset'), {}
            out_len += len(wd)
        if out_len != prefix:
            sym = 'withheld' if out_len < prefix else 'early'
            return (sym, f'after delivery #{step} ({off},{ln}) the longest '
                    f'delivered contiguous prefix is {prefix} bytes but '
                    f'{out_len} bytes were released '
                    f'(deliveries {deliveries[:step + 1]})'), {}
    if out_len != n:
        return ('incomplete', f'complete history released {out_len}/{n}'), {}
    return None, {'redelivery': redelivery, 'ooo': ooo,
                  'deliveries': len(deliveries)}


# ------------------------------------------------------------ generation
def compositions(n, maxparts):
    """all ways to cut [0,n) into 1..maxparts consecutive non-empty parts"""
    if n == 0:
        yield []
        return
    for k in range(1, min(maxparts, n) + 1):
        for cuts in itertools.combinations(range(1, n), k - 1):
            b = [0] + list(cuts) + [n]
            yield [(b[i], b[i + 1] - b[i]) for i in range(k)]


def chunkings(length):
    """all compositions of `length` into positive chunk lengths"""
    if length == 0:
        yield []
        return
    for first in range(1, length + 1):
        for rest in chunkings(length - first):
            yield [first] + rest


def attempt_lists(length, max_attempts):
    """attempt lists for a part: up to max_attempts-1 partial (possibly
    empty, possibly complete-but-failed) attempts, then a complete one."""
    complete = list(chunkings(length))
    partial = [[]]
    for stop in range(1, length + 1):
        partial += list(chunkings(stop))
    out = []
    for k in range(1, max_attempts + 1):
        for pre in itertools.product(partial, repeat=k - 1):
            if any(len(p) == 0 for p in pre):
                continue   # an attempt that delivered nothing adds nothing
            for last in complete:
                out.append(list(pre) + [last])
    return out


def interleavings(lens):
    """all merge orders of sequences with the given lengths, as lists of
    sequence indices."""
    total = sum(lens)
    if total == 0:
        yield []
        return

    def rec(rem, acc):
        if len(acc) == total:
            yield list(acc)
            return
        for i in range(len(rem)):
            if rem[i]:
                rem[i] -= 1
                acc.append(i)
                yield from rec(rem, acc)
                acc.pop()
                rem[i] += 1
    yield from rec(list(lens), [])


def enumerate_histories(n, maxparts, max_attempts):
    for parts in compositions(n, maxparts):
        per_part = [attempt_lists(ln, max_attempts) for (_, ln) in parts]
        for combo in itertools.product(*per_part):
            lens = [sum(len(a) for a in attempts) for attempts in combo]
            for merge in interleavings(lens):
                # merge here lists absolute part indices; encode as such
                yield {'n': n,
                       'parts': [[parts[i][0], combo[i]]
                                 for i in range(len(parts))],
                       'merge_abs': merge}


def flatten_abs(history):
    parts = history['parts']
    seqs = []
    for start, attempts in parts:
        seq = []
        for cuts in attempts:
            off = start
            for ln in cuts:
                seq.append((off, ln))
                off += ln
        seqs.append(seq)
    pos = [0] * len(seqs)
    out = []
    for i in history['merge_abs']:
        out.append(seqs[i][pos[i]])
        pos[i] += 1
    return out


def count_histories(n, maxparts, max_attempts, cap=None):
    c = 0
    for _ in enumerate_histories(n, maxparts, max_attempts):
        c += 1
        if cap and c > cap:
            return c
    return c


@st.composite
def histories(draw, max_n=40, max_parts=4, max_attempts=3):
    n = draw(st.integers(1, max_n))
    k = draw(st.integers(1, min(max_parts, n)))
    cuts = sorted(set(draw(st.lists(st.integers(1, max(1, n - 1)),
                                    min_size=k - 1, max_size=k - 1))))
    b = [0] + [c for c in cuts if 0 < c < n] + [n]
    parts = []
    total_chunks = 0
    for i in range(len(b) - 1):
        start, ln = b[i], b[i + 1] - b[i]
        na = draw(st.integers(1, max_attempts))
        attempts = []
        for a in range(na):
            stop = ln if a == na - 1 else draw(st.integers(1, ln))
            pts = sorted(set(draw(st.lists(st.integers(1, max(1, stop - 1)),
                                           max_size=4))))
            bb = [0] + [p for p in pts if 0 < p < stop] + [stop]
            attempts.append([bb[j + 1] - bb[j] for j in range(len(bb) - 1)])
            total_chunks += len(attempts[-1])
        parts.append([start, attempts])
    merge = draw(st.lists(st.integers(0, max(3, max_parts - 1)), min_size=0,
                          max_size=total_chunks))
    return {'n': n, 'parts': parts, 'merge': merge}
