"""Differential validation of the trusted base: the sequence of read / seek /
tell / enable / disable operations that a REAL botocore client performs on an
upload body (answered locally through the before-send event, no network) must
be a sequence the fake client of vt/fakes3.py can produce.  A mismatch is a
harness error (the fake would need updating), never a property violation."""
import io
import re

# body protocol the fake implements (vt/fakes3.py:_consume_body), over the
# alphabet T tell, R non-empty read, Z empty read, S0 seek(0), D disable
# callbacks, E enable callbacks (len() calls ignored):
#   pre-flight read?  attempt  (rewind attempt)*
#   attempt = D? (signing read)? E R* Z
FAKE_LANGUAGE = re.compile(
    r'^(TR*ZS0)?(D?(TR*ZS0)?ER*Z)(S0D?(TR*ZS0)?ER*Z)*$')


def real_traces():
    import botocore.session
    import botocore.awsrequest
    from botocore.config import Config
    from s3transfer.utils import (ReadFileChunk, signal_transferring,
                                  signal_not_transferring)
    ops = []

    class Raw(io.BytesIO):
        def stream(self, **kw):
            d = self.read()
            if d:
                yield d

    class LogChunk(ReadFileChunk):
        def read(self, amount=None):
            d = super().read(amount)
            ops.append('R' if d else 'Z')
            return d

        def seek(self, where, whence=0):
            ops.append(f'S{where}' if whence == 0 else f'S{where},{whence}')
            return super().seek(where, whence)

        def tell(self):
            ops.append('T')
            return super().tell()

        def enable_callback(self):
            ops.append('E')
            super().enable_callback()

        def disable_callback(self):
            ops.append('D')
            super().disable_callback()

    out = []
    for endpoint in ('http://localhost:9', 'https://localhost:9'):
        for rcc in ('when_required', 'when_supported'):
            for fail_first in (False, True):
                del ops[:]
                s = botocore.session.get_session()
                c = s.create_client(
                    's3', region_name='us-east-1', aws_access_key_id='a',
                    aws_secret_access_key='b', endpoint_url=endpoint,
                    config=Config(request_checksum_calculation=rcc,
                                  retries={'max_attempts': 3,
                                           'mode': 'standard'}))
                c.meta.events.register_first(
                    'request-created.s3', signal_not_transferring,
                    unique_id='vt-not-transferring')
                c.meta.events.register_last(
                    'request-created.s3', signal_transferring,
                    unique_id='vt-transferring')
                n = [0]

                def before_send(request, **kw):
                    b = request.body
                    if hasattr(b, 'read'):
                        while b.read(8192):
                            pass
                    n[0] += 1
                    if fail_first and n[0] == 1:
                        return botocore.awsrequest.AWSResponse(
                            request.url, 500, {}, Raw(
                                b'<Error><Code>InternalError</Code>'
                                b'<Message>x</Message></Error>'))
                    return botocore.awsrequest.AWSResponse(
                        request.url, 200, {'ETag': '"x"'}, Raw(b''))
                c.meta.events.register('before-send.s3', before_send)
                body = LogChunk(io.BytesIO(b'x' * 20000), 20000, 20000,
                                callbacks=[lambda bytes_transferred: None],
                                enable_callbacks=False)
                c.put_object(Bucket='b', Key='k', Body=body)
                out.append(((endpoint[:5], rcc, fail_first), ''.join(ops)))
    return out


def validate():
    """-> (accepted, [rejected traces])"""
    bad = []
    traces = real_traces()
    for mode, t in traces:
        if not FAKE_LANGUAGE.match(t):
            bad.append((mode, t))
    return len(traces) - len(bad), bad
