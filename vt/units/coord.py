"""C17: TransferCoordinator/TransferFuture against a reference state machine.

Operation alphabet (what the rest of the package and users call):
  q   set_status_to_queued        r   set_status_to_running
  S   set_result('R')             E   set_exception(e_k)
  O   set_exception(e_k, override=True)
  C   cancel('m')                 F   cancel('f', FatalError)
  A   announce_done  (only after a terminal status, as every caller does)
  b   add_done_callback           l   add_failure_cleanup
  U   future.set_exception(e_k)   (user API)
Observers done()/status/exception run after every operation, result() once
the done event is set.
"""
import itertools

from hypothesis import strategies as st

OPS = ['q', 'r', 'S', 'E', 'O', 'C', 'F', 'A', 'b', 'l', 'U']
TERMINAL = ('success', 'failed', 'cancelled')


class Model:
    def __init__(self):
        self.status = 'not-started'
        self.exc = None          # symbolic: ('E', k) / ('cancel', type, msg)
        self.result = None
        self.announced = False
        self.callbacks = []      # ids registered and not yet run
        self.cleanups = []
        self.cb_runs = {}
        self.cl_runs = {}
        self.n = 0

    def done(self):
        return self.status in TERMINAL

    def enabled(self, op):
        if op == 'A':
            return self.done()
        return True

    def _announce(self):
        if self.status != 'success':
            for c in self.cleanups:
                self.cl_runs[c] = self.cl_runs.get(c, 0) + 1
            self.cleanups = []
        self.announced = True
        for c in self.callbacks:
            self.cb_runs[c] = self.cb_runs.get(c, 0) + 1
        self.callbacks = []

    def apply(self, op, k):
        """returns expected ('ok',) or ('raise', name)"""
        if op in ('q', 'r'):
            if self.done():
                return ('raise', 'RuntimeError')
            self.status = 'queued' if op == 'q' else 'running'
        elif op == 'S':
            self.exc = None
            self.result = 'R'
            self.status = 'success'
        elif op == 'E':
            if not self.done():
                self.exc = ('E', k)
                self.status = 'failed'
        elif op == 'O':
            self.exc = ('E', k)
            self.status = 'failed'
        elif op in ('C', 'F'):
            if not self.done():
                self.exc = ('cancel', 'CancelledError' if op == 'C'
                            else 'FatalError', 'm' if op == 'C' else 'f')
                ann = self.status == 'not-started'
                self.status = 'cancelled'
                if ann:
                    self._announce()
        elif op == 'A':
            self._announce()
        elif op == 'b':
            self.callbacks.append(k)
        elif op == 'l':
            self.cleanups.append(k)
        elif op == 'U':
            if not self.done():
                return ('raise', 'TransferNotDoneError')
            self.exc = ('E', k)
            self.status = 'failed'
        return ('ok',)


class Real:
    def __init__(self):
        from s3transfer.futures import TransferCoordinator, TransferFuture
        self.c = TransferCoordinator(transfer_id=0)
        self.f = TransferFuture(coordinator=self.c)
        self.excs = {}
        self.cb_runs = {}
        self.cl_runs = {}

    def exc(self, k):
        if k not in self.excs:
            self.excs[k] = ValueError(f'e{k}')
        return self.excs[k]

    def apply(self, op, k):
        from s3transfer.exceptions import FatalError
        try:
            if op == 'q':
                self.c.set_status_to_queued()
            elif op == 'r':
                self.c.set_status_to_running()
            elif op == 'S':
                self.c.set_result('R')
            elif op == 'E':
                self.c.set_exception(self.exc(k))
            elif op == 'O':
                self.c.set_exception(self.exc(k), override=True)
            elif op == 'C':
                self.c.cancel('m')
            elif op == 'F':
                self.c.cancel('f', FatalError)
            elif op == 'A':
                self.c.announce_done()
            elif op == 'b':
                def cb(k=k):
                    self.cb_runs[k] = self.cb_runs.get(k, 0) + 1
                self.c.add_done_callback(cb)
            elif op == 'l':
                def cl(k=k):
                    self.cl_runs[k] = self.cl_runs.get(k, 0) + 1
                self.c.add_failure_cleanup(cl)
            elif op == 'U':
                self.f.set_exception(self.exc(k))
            return ('ok',)
        except Exception as e:  # noqa
            return ('raise', type(e).__name__)

    def same_exc(self, sym):
        e = self.c.exception
        if sym is None:
            return e is None
        if sym[0] == 'E':
            return e is self.excs.get(sym[1])
        return (e is not None and type(e).__name__ == sym[1]
                and str(e) == sym[2])


def observe(real, model, was_done, hist):
    """Compare everything observable.  Returns violation or None."""
    d = real.f.done()
    if was_done and not d:
        return ('done-went-false', f'done() returned True earlier and False '
                f'after {hist}')
    if d != model.done():
        return ('done-mismatch', f'done()={d}, model {model.done()} after '
                f'{hist}')
    if real.c.status != model.status:
        return (f'status-{real.c.status}-expected-{model.status}',
                f'status {real.c.status!r}, model {model.status!r} after '
                f'{hist}')
    if not real.same_exc(model.exc):
        return ('exception-mismatch',
                f'stored exception {real.c.exception!r}, model {model.exc} '
                f'after {hist}')
    ev = getattr(real.c, '_done_event', None)
    announced = ev.is_set() if ev is not None else model.announced
    if announced != model.announced:
        return ('announce-mismatch', f'result() unblocked={announced}, '
                f'model {model.announced} after {hist}')
    if announced:
        try:
            r = real.f.result()
            out = ('ok', r)
        except Exception as e:  # noqa
            out = ('exc', e)
        if model.exc is None:
            if out != ('ok', model.result):
                return ('result-mismatch', f'result() -> {out}, model '
                        f'returns {model.result!r} after {hist}')
        else:
            if out[0] != 'exc' or out[1] is not real.c.exception:
                return ('result-not-stored-exception',
                        f'result() -> {out}, stored {real.c.exception!r} '
                        f'after {hist}')
        stored = real.c.exception is not None
        if stored != (real.c.status in ('failed', 'cancelled')):
            return ('status-exception-disagree',
                    f'status {real.c.status} with exception '
                    f'{real.c.exception!r} after {hist}')
    if real.cb_runs != model.cb_runs:
        return ('done-callback-runs', f'callback runs {real.cb_runs}, model '
                f'{model.cb_runs} after {hist}')
    if real.cl_runs != model.cl_runs:
        return ('cleanup-runs', f'cleanup runs {real.cl_runs}, model '
                f'{model.cl_runs} after {hist}')
    return None


def run_sequence(ops):
    from ..detsched import inline_patched
    with inline_patched():
        return _run_sequence(ops)


def _run_sequence(ops):
    """ops: list of op letters; disabled ops (A before terminal) are
    skipped.  Returns (violation or None, info).  Runs on the inline shim:
    an operation that would block forever raises WouldBlock."""
    real = Real()
    model = Model()
    was_done = False
    hist = []
    terminal_ops = 0
    for i, op in enumerate(ops):
        if not model.enabled(op):
            continue
        hist.append(op)
        if op in 'SEOCFU':
            terminal_ops += 1
        exp = model.apply(op, i)
        got = real.apply(op, i)
        if got != exp:
            return ((f'{op}:expected-{exp}-got-{got}',
                     f'history {hist}: {op} -> {got}, model {exp}'), {})
        v = observe(real, model, was_done, hist)
        if v:
            return (v, {})
        was_done = was_done or model.done()
    return None, {'terminal_ops': terminal_ops, 'len': len(hist)}


def enumerate_sequences(depth, shard, nshards):
    """All sequences over OPS of exactly `depth` letters in which every 'A'
    is enabled (others are pruned)."""
    def rec(prefix, model_ops):
        if len(prefix) == depth:
            yield prefix
            return
        m = Model()
        for i, op in enumerate(prefix):
            m.apply(op, i)
        for j, op in enumerate(OPS):
            if not m.enabled(op):
                continue
            if len(prefix) == 1 and (OPS.index(prefix[0]) * 11 + j) \
                    % nshards != shard:
                continue
            yield from rec(prefix + [op], None)
    yield from rec([], None)


def sequences(max_len=30):
    return st.lists(st.sampled_from(OPS), min_size=1, max_size=max_len).map(
        lambda ops: {'kind': 'seq', 'ops': ops})


# ------------------------------------------------------------ concurrent
@st.composite
def concurrent_cases(draw):
    from ..gen import schedules
    nthreads = draw(st.integers(2, 3))
    # what real callers can do concurrently: the user thread (cancel, user
    # set_exception, registration), the submission thread (transitions,
    # failure), the final task (result / failure + announce)
    user = st.lists(st.sampled_from(['C', 'F', 'U', 'b', 'l']),
                    min_size=1, max_size=3)
    sub = st.lists(st.sampled_from(['q', 'r', 'E', 'A', 'l']),
                   min_size=1, max_size=3)
    fin = st.lists(st.sampled_from(['S', 'E', 'A', 'O']),
                   min_size=1, max_size=3)
    threads = [draw(user), draw(sub)]
    if nthreads == 3:
        threads.append(draw(fin))
    return {'kind': 'conc', 'threads': threads, 'sched': draw(schedules(80)),
            'lines': draw(st.lists(st.integers(0, 160), max_size=4))}


def run_concurrent(case):
    from ..detsched import Scheduler, make_policy, LinePreempter
    from ..e2e import patched
    sched = Scheduler(make_policy(case.get('sched')), max_steps=20000)
    state = {'went_false': None}
    info = {}

    def main():
        real = Real()
        state['real'] = real
        seen_done = [False]

        def watch(s):
            d = real.c.done()
            if seen_done[0] and not d and state['went_false'] is None:
                state['went_false'] = s.step
            seen_done[0] = seen_done[0] or d
        sched.step_hooks.append(watch)
        log = []
        state['log'] = log
        for j, op in enumerate(case.get('prefix') or []):
            r = real.apply(op, 90 + j)
            log.append((-1, j, op, 90 + j, r))

        def runner(tix, ops):
            def run():
                for j, op in enumerate(ops):
                    k = tix * 10 + j
                    if op == 'A' and not real.c.done():
                        continue
                    sched.yield_('op')
                    r = real.apply(op, k)
                    log.append((tix, j, op, k, r))
            return run
        for tix, ops in enumerate(case['threads']):
            sched.spawn(runner(tix, ops), f'th{tix}')

    lp = LinePreempter(sched, case.get('lines') or [],
                       files=('futures.py',), count=case.get('count', False))
    with patched(sched):
        with lp:
            sched.run(main)
    info['nlines'] = lp.n
    if sched.deadlock:
        return (('conc:deadlock', f'{sched.deadlock} case {case}'), info)
    if sched.errors:
        return ((f'conc:exception:{type(sched.errors[0][1]).__name__}',
                 repr(sched.errors)), info)
    if state['went_false'] is not None:
        return (('conc:done-went-false',
                 f'done() returned True and later False (step '
                 f'{state["went_false"]}); threads {case["threads"]}'), info)
    real = state['real']
    log = state['log']
    # linearizability of the data state: some interleaving of the executed
    # operations (respecting per-thread order) must lead the model to the
    # observed (status, exception, result)
    per = {}
    for (tix, j, op, k, r) in log:
        per.setdefault(tix, []).append((op, k, r))
    prefix_ops = per.pop(-1, [])
    seqs = [per[t] for t in sorted(per)]
    info['ops'] = sum(len(s) for s in seqs)
    info['terminal'] = sum(1 for s in seqs for (op, _, _) in s
                           if op in 'SEOCFU')
    found = False
    for order in _merges([len(s) for s in seqs]):
        m = Model()
        for (op, k, r) in prefix_ops:
            m.apply(op, k)
        pos = [0] * len(seqs)
        ok = True
        for t in order:
            op, k, r = seqs[t][pos[t]]
            pos[t] += 1
            if op == 'A' and not m.done():
                ok = False
                break
            exp = m.apply(op, k)
            if exp != r:
                ok = False
                break
        if not ok:
            continue
        if m.status == real.c.status and real.same_exc(m.exc) and (
                m.exc is not None or m.result == real.c._result
                or m.status != 'success'):
            found = True
            break
    if not found:
        return (('conc:not-linearizable',
                 f'final state (status {real.c.status}, exception '
                 f'{real.c.exception!r}) is reached by no interleaving of '
                 f'{seqs}'), info)
    # consistency at quiescence
    stored = real.c.exception is not None
    if real.c.done() and stored != (real.c.status in ('failed',
                                                       'cancelled')):
        return (('conc:status-exception-disagree',
                 f'status {real.c.status}, exception {real.c.exception!r}'),
                info)
    for name, runs in (('callback', real.cb_runs), ('cleanup', real.cl_runs)):
        if any(n > 1 for n in runs.values()):
            return ((f'conc:{name}-ran-twice', f'{runs}'), info)
    # a done callback registered before the threads started runs exactly
    # once when done was announced (all threads have finished here, so every
    # announce_done() has returned)
    ev = getattr(real.c, '_done_event', None)
    if ev is not None and ev.is_set():
        for (tix, j, op, k, r) in log:
            if tix == -1 and op == 'b' and real.cb_runs.get(k, 0) != 1:
                return (('conc:callback-never-ran',
                         f'done announced, callback {k} registered before '
                         f'ran {real.cb_runs.get(k, 0)}x; threads '
                         f'{case["threads"]} prefix {case.get("prefix")}'),
                        info)
    return None, info


# start states of the systematic line-preemption scenarios: without and with
# registered done callbacks / failure cleanups, before and after a terminal
# status that has not been announced yet
LINE_PREFIXES = ([], ['q', 'r'], ['b', 'l'], ['b', 'l', 'q', 'r'],
                 ['b', 'l', 'r', 'E'], ['b', 'l', 'r', 'S'])


def systematic_line_cases(prefixes, shard, nshards):
    """Two threads running one operation each from every start state, with
    one forced preemption at EVERY executed source line of futures.py in
    turn.  Yields (case, violation, info, fingerprint)."""
    idx = 0
    for prefix in prefixes:
        for a in OPS:
            for b in OPS:
                idx += 1
                if idx % nshards != shard:
                    continue
                base = {'kind': 'conc', 'threads': [[a], [b]],
                        'prefix': list(prefix),
                        'sched': {'mode': 'walk', 'choices': []}}
                v0, info0 = run_concurrent(dict(base, count=True))
                n = info0.get('nlines', 0)
                for ln in [None] + list(range(1, n + 1)):
                    case = dict(base, lines=[] if ln is None else [ln])
                    viol, info = run_concurrent(case)
                    yield case, viol, info, f'lp{"".join(prefix)}.{a}{b}{ln}'


def _merges(lens):
    total = sum(lens)

    def rec(rem, acc):
        if len(acc) == total:
            yield list(acc)
            return
        for i in range(len(rem)):
            if rem[i]:
                rem[i] -= 1
                acc.append(i)
                yield from rec(rem, acc)
                acc.pop()
                rem[i] += 1
    yield from rec(list(lens), [])
