"""C09 (unit level): ReadFileChunk against a reference cursor model.

Arbitrary read / seek(whence 0,1,2) / enable / disable / signal sequences on
the real ReadFileChunk over an in-memory file; the model tracks the
chunk-relative cursor and what progress must have been reported: reads report
len(data), seeks report the bounded position delta, only while enabled.
"""
import io

from hypothesis import strategies as st


@st.composite
def sequences(draw):
    full = draw(st.integers(0, 40))
    start = draw(st.integers(0, full))
    chunk = draw(st.integers(0, 45))
    enabled = draw(st.booleans())
    n = draw(st.integers(1, 14))
    ops = []
    for _ in range(n):
        k = draw(st.integers(0, 9))
        if k <= 3:
            ops.append(['read', draw(st.one_of(st.none(),
                                               st.integers(0, 20)))])
        elif k <= 6:
            wh = draw(st.sampled_from([0, 0, 0, 1, 2]))
            ops.append(['seek', draw(st.integers(-10, 50)), wh])
        elif k == 7:
            ops.append([draw(st.sampled_from(
                ['enable', 'disable', 'sig_on', 'sig_off']))])
        elif k == 8:
            ops.append(['tell'])
        else:
            ops.append(['len'])
    return {'kind': 'rfc', 'full': full, 'start': start, 'chunk': chunk,
            'enabled': enabled, 'ops': ops}


def run_sequence(case):
    from s3transfer.utils import ReadFileChunk
    from ..fakes3 import pattern_bytes
    data = pattern_bytes(case['full'], 5)
    f = io.BytesIO(data)
    f.seek(case['start'])
    reported = []
    rfc = ReadFileChunk(f, case['chunk'], case['full'],
                        callbacks=[lambda bytes_transferred:
                                   reported.append(bytes_transferred)],
                        enable_callbacks=case['enabled'])
    start = case['start']
    size = min(case['full'] - start, case['chunk'])
    p = 0
    enabled = case['enabled']
    expect = []
    always = enabled
    neg = False
    for i, op in enumerate(case['ops']):
        hist = case['ops'][:i + 1]
        if op[0] == 'read':
            n = op[1]
            left = max(size - p, 0)
            k = left if n is None else min(left, n)
            want = data[start + p:start + p + k]
            got = rfc.read(n)
            if got != want:
                return ('read-bytes', f'{hist}: read -> {got!r}, expected '
                        f'{want!r} (chunk [{start},{start + size}))'), {}
            p += k
            if enabled and k:
                expect.append(k)
        elif op[0] == 'seek':
            w, wh = op[1], op[2]
            tgt = w if wh == 0 else (p + w if wh == 1 else size + w)
            newp = max(tgt, 0)
            rfc.seek(w, wh)
            delta = min(newp, size) - min(p, size)
            if enabled and delta:
                expect.append(delta)
                if delta < 0:
                    neg = True
            p = newp
            under = f.tell()
            if under != start + p:
                return ('seek-position', f'{hist}: underlying file at '
                        f'{under}, expected {start + p}'), {}
        elif op[0] in ('enable', 'sig_on'):
            (rfc.enable_callback if op[0] == 'enable'
             else rfc.signal_transferring)()
            enabled = True
        elif op[0] in ('disable', 'sig_off'):
            (rfc.disable_callback if op[0] == 'disable'
             else rfc.signal_not_transferring)()
            enabled = False
            always = False
        elif op[0] == 'tell':
            if rfc.tell() != p:
                return ('tell', f'{hist}: tell() {rfc.tell()}, model {p}'), {}
        elif op[0] == 'len':
            if len(rfc) != size:
                return ('len', f'{hist}: len {len(rfc)}, model {size}'), {}
        if reported != expect:
            return ('progress', f'{hist}: callbacks reported {reported}, '
                    f'model {expect}'), {}
        if always:
            tot = sum(reported)
            if tot != min(p, size) or tot < 0 or tot > size:
                return ('progress-sum', f'{hist}: reported sum {tot}, '
                        f'cursor {p}, size {size}'), {}
    return None, {'neg': neg, 'beyond': p > size}
