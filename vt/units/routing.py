"""C15: extra-argument routing, differential against the botocore S3 model.

A cell = (front-end method, mode, size discovered/provided, rcc, argument
set).  Every argument carries a unique sentinel string; the keyword arguments
of every fake-client call are collected (strict=False so unknown names are
recorded, not raised) and judged against the input shapes of the installed
botocore service model, with the exceptions the property states.
"""
import itertools

from ..fakes3 import op_shapes, OPS

HEAD_MAP = {
    'CopySourceIfMatch': 'IfMatch',
    'CopySourceIfModifiedSince': 'IfModifiedSince',
    'CopySourceIfNoneMatch': 'IfNoneMatch',
    'CopySourceIfUnmodifiedSince': 'IfUnmodifiedSince',
    'CopySourceSSECustomerKey': 'SSECustomerKey',
    'CopySourceSSECustomerAlgorithm': 'SSECustomerAlgorithm',
    'CopySourceSSECustomerKeyMD5': 'SSECustomerKeyMD5',
}
FULL = ['ChecksumCRC32', 'ChecksumCRC32C', 'ChecksumCRC64NVME',
        'ChecksumSHA1', 'ChecksumSHA256']
FAMILY = ['ChecksumAlgorithm', 'ChecksumType', 'MpuObjectSize'] + FULL
LIB_ARGS = {'Bucket', 'Key', 'Body', 'UploadId', 'PartNumber',
            'MultipartUpload', 'CopySource', 'CopySourceRange', 'Range'}

CFG = dict(multipart_threshold=8, multipart_chunksize=4, io_chunksize=4,
           max_request_concurrency=2, max_submission_concurrency=1,
           max_request_queue_size=10, max_submission_queue_size=10,
           max_io_queue_size=10, num_download_attempts=1,
           max_in_memory_upload_chunks=2, max_in_memory_download_chunks=2)


def allowed_lists():
    from s3transfer.manager import TransferManager as TM
    return {'upload': list(TM.ALLOWED_UPLOAD_ARGS),
            'download': list(TM.ALLOWED_DOWNLOAD_ARGS),
            'copy': list(TM.ALLOWED_COPY_ARGS),
            'delete': list(TM.ALLOWED_DELETE_ARGS)}


def sentinel(name):
    if name == 'ChecksumAlgorithm':
        return 'SENTINELALG'
    return f'sentinel:{name}'


def make_case(method, mode, provided, rcc, args):
    t = {'type': method, 'size': 3 if mode == 'single' else 10,
         'extra': {a: sentinel(a) for a in args},
         'subs': [{'size': True}] if provided else []}
    if method == 'upload':
        t['src'] = 'path'
        t['start'] = 0
    elif method == 'download':
        t['dst'] = 'seek'
        t['preexist'] = None
    elif method == 'copy':
        t['version'] = False
        t['src_client'] = False
    return {'cfg': dict(CFG), 'adj': [4, 16, 10], 'exec': 'serial',
            'rcc': rcc, 'strict': False, 'transfers': [t],
            'scripts': {'body': [], 'stream': []}, 'faults': [],
            'end': {'how': 'shutdown', 'wait_results': True},
            'sched': {'mode': 'walk', 'choices': []},
            'cell': [method, mode, provided, rcc, sorted(args)]}


def cells():
    al = allowed_lists()
    out = []
    for mode in ('single', 'multi'):
        for rcc in ('when_required', 'when_supported'):
            for a in al['upload']:
                out.append(('upload', mode, False, rcc, (a,)))
            out.append(('upload', mode, False, rcc, ()))
            for r in range(2, len(FAMILY) + 1):
                for sub in itertools.combinations(FAMILY, r):
                    out.append(('upload', mode, False, rcc, sub))
        for provided in (False, True):
            for a in al['download']:
                out.append(('download', mode, provided, 'when_required',
                            (a,)))
            out.append(('download', mode, provided, 'when_required',
                        tuple(al['download'])))
            for a in al['copy']:
                out.append(('copy', mode, provided, 'when_required', (a,)))
            out.append(('copy', mode, provided, 'when_supported', ()))
            out.append(('copy', mode, provided, 'when_required',
                        tuple(x for x in al['copy'])))
    for a in al['delete']:
        out.append(('delete', 'single', False, 'when_required', (a,)))
    out.append(('delete', 'single', False, 'when_required',
                tuple(al['delete'])))
    return out


def disallowed_cells():
    al = allowed_lists()
    names = set()
    for sh in op_shapes().values():
        names |= set(sh)
    names |= {'Foo', 'acl', 'ChecksumCrc32', 'GrantWriteACL', ''}
    out = []
    for method in ('upload', 'download', 'copy', 'delete'):
        for n in sorted(names):
            if n not in al[method] and n not in LIB_ARGS:
                out.append((method, 'single', False, 'when_required', (n,)))
    return out


def judge(R, cell):
    """-> list of (signature, message)"""
    method, mode, provided, rcc, args = cell
    shapes = op_shapes()
    v = []
    r = R.transfers[0]
    sent = r['spec']['extra']
    al = allowed_lists()[method]
    bad = [a for a in args if a not in al]
    calls = [c for c in R.trace.calls]
    if bad:
        e = r.get('submit_exc')
        if not isinstance(e, ValueError):
            v.append((f'c15:{method}:disallowed-not-rejected',
                      f'{method}(extra_args={{{bad[0]!r}:..}}) did not raise '
                      f'ValueError (got {e!r})'))
        if calls:
            v.append((f'c15:{method}:request-before-rejection',
                      f'{[c["op"] for c in calls]} issued for disallowed '
                      f'argument {bad}'))
        return v
    if r.get('submit_exc') is not None or not (r['outcome'] or {}).get('ok'):
        v.append((f'c15:{method}:{mode}:transfer-failed',
                  f'cell {cell}: {r.get("submit_exc")!r} / {r["outcome"]}'))
        return v
    full_given = [a for a in args if a in FULL]
    for c in calls:
        op = c['op']
        opname = OPS[op]
        shape = shapes[opname]
        kw = c['kwargs']
        names = set(c['names'])
        unknown = [n for n in names if n not in shape]
        if unknown:
            v.append((f'c15:{method}:{mode}:{op}:unknown-parameter:'
                      f'{",".join(sorted(unknown))}',
                      f'{op} received {unknown}, not in the {opname} input '
                      f'shape (cell {cell})'))
        if op == 'abort_multipart_upload':
            continue
        copy_head = method == 'copy' and op == 'head_object'
        for a in args:
            val = sent[a]
            if copy_head:
                if a in HEAD_MAP:
                    tgt = HEAD_MAP[a]
                    if kw.get(tgt) is not val:
                        v.append((f'c15:copy:{mode}:head_object:missing-'
                                  f'mapped:{a}',
                                  f'{a} must reach HeadObject as {tgt}; got '
                                  f'{kw.get(tgt)!r}'))
                elif a in ('RequestPayer', 'ExpectedBucketOwner'):
                    if kw.get(a) is not val:
                        v.append((f'c15:copy:{mode}:head_object:missing:{a}',
                                  f'{a} not forwarded to HeadObject'))
                elif a in kw and kw[a] is val and a not in (
                        'SSECustomerKey', 'SSECustomerAlgorithm',
                        'SSECustomerKeyMD5'):
                    pass
                continue
            want = a in shape
            # stated exceptions
            if a in FULL and op in ('upload_part', 'create_multipart_upload'):
                want = False
            if a == 'ChecksumAlgorithm' and full_given and mode == 'multi' \
                    and op in ('create_multipart_upload', 'upload_part'):
                # replaced by the algorithm matching the full-object checksum
                algs = {f.replace('Checksum', '') for f in full_given}
                if kw.get('ChecksumAlgorithm') not in algs:
                    v.append((f'c15:upload:multi:{op}:checksum-algorithm-'
                              f'not-matching',
                              f'{op} ChecksumAlgorithm='
                              f'{kw.get("ChecksumAlgorithm")!r}, full-object '
                              f'checksums given {full_given}'))
                continue
            if a == 'ChecksumType' and full_given and mode == 'multi' and \
                    op in ('create_multipart_upload',
                           'complete_multipart_upload'):
                if kw.get('ChecksumType') != 'FULL_OBJECT':
                    v.append((f'c15:upload:multi:{op}:checksum-type',
                              f'{op} ChecksumType={kw.get("ChecksumType")!r}'
                              f' with full-object checksum {full_given}'))
                continue
            has = a in kw
            if want and not has:
                v.append((f'c15:{method}:{mode}:{op}:not-forwarded:{a}',
                          f'{a} is a member of {opname} but {op} did not '
                          f'receive it (cell {cell})'))
            elif want and kw[a] is not val:
                v.append((f'c15:{method}:{mode}:{op}:modified:{a}',
                          f'{op} received {a}={kw[a]!r}, sent {val!r}'))
            elif not want and has and a in shape:
                v.append((f'c15:{method}:{mode}:{op}:wrongly-forwarded:{a}',
                          f'{op} received {a} (cell {cell})'))
        # library-added checksum arguments
        if method == 'upload':
            if full_given and mode == 'multi':
                algs = {f.replace('Checksum', '') for f in full_given}
                if op == 'create_multipart_upload':
                    if kw.get('ChecksumType') != 'FULL_OBJECT' or \
                            kw.get('ChecksumAlgorithm') not in algs:
                        v.append(('c15:upload:multi:create:full-object-'
                                  'checksum-not-announced',
                                  f'create got ChecksumType='
                                  f'{kw.get("ChecksumType")!r} '
                                  f'ChecksumAlgorithm='
                                  f'{kw.get("ChecksumAlgorithm")!r} for '
                                  f'{full_given}'))
            if 'ChecksumAlgorithm' not in args and not full_given and \
                    op in ('put_object', 'create_multipart_upload',
                           'upload_part'):
                got = kw.get('ChecksumAlgorithm')
                exp = 'CRC32' if rcc == 'when_supported' else None
                if got != exp:
                    v.append((f'c15:upload:{mode}:{op}:crc32-default:{rcc}',
                              f'{op} ChecksumAlgorithm={got!r}, expected '
                              f'{exp!r} with request_checksum_calculation='
                              f'{rcc}'))
            if 'ChecksumAlgorithm' not in args and full_given and \
                    mode == 'single' and op == 'put_object' and \
                    'ChecksumAlgorithm' in kw:
                v.append((f'c15:upload:single:put_object:default-with-full-'
                          f'object-checksum',
                          f'put_object got ChecksumAlgorithm='
                          f'{kw["ChecksumAlgorithm"]!r} although a '
                          f'full-object checksum was supplied'))
    return v


# ---------------------------------------------------------------- legacy
def legacy_allowed():
    import s3transfer
    return {'upload': list(s3transfer.S3Transfer.ALLOWED_UPLOAD_ARGS),
            'download': list(s3transfer.S3Transfer.ALLOWED_DOWNLOAD_ARGS)}


def legacy_cells():
    al = legacy_allowed()
    out = []
    names = set()
    for sh in op_shapes().values():
        names |= set(sh)
    for op in ('upload', 'download'):
        for mode in ('single', 'multi'):
            for a in al[op]:
                out.append(('legacy', op, mode, (a,)))
            out.append(('legacy', op, mode, tuple(al[op])))
        for n in sorted(names | {'Foo'}):
            if n not in al[op] and n not in LIB_ARGS:
                out.append(('legacy', op, 'single', (n,)))
    return out


def run_legacy_cell(cell):
    from ..legacy import run_legacy_case
    _, op, mode, args = cell
    case = {'kind': 'legacy', 'op': op, 'size': 3 if mode == 'single' else 10,
            'threshold': 8, 'chunk': 4, 'conc': 1, 'attempts': 1,
            'preexist': None, 'strict': False,
            'extra': {a: sentinel(a) for a in args}, 'faults': [],
            'scripts': {}, 'cell': list(cell[:3]) + [sorted(args)]}
    R = run_legacy_case(case)
    return case, judge_simple(R, 'legacy:' + op, mode, args,
                              legacy_allowed()[op])


def judge_simple(R, front, mode, args, allowed):
    """forwarded <=> member of the operation's input shape; identical value;
    nothing unknown; disallowed names rejected before any request."""
    shapes = op_shapes()
    v = []
    t = R.transfers[0]
    sent = t.get('extra_sent') or {}
    calls = list(R.trace.calls)
    bad = [a for a in args if a not in allowed]
    o = t['outcome'] or {}
    if bad:
        if not isinstance(o.get('exc'), ValueError):
            v.append((f'c15:{front}:disallowed-not-rejected:{bad[0]}',
                      f'{front}(extra_args={{{bad[0]!r}:..}}) did not raise '
                      f'ValueError (got {o})'))
        if calls:
            v.append((f'c15:{front}:request-before-rejection',
                      f'{[c["op"] for c in calls]} issued'))
        return v
    if not o.get('ok'):
        v.append((f'c15:{front}:{mode}:transfer-failed',
                  f'args {args}: {o}'))
        return v
    for c in calls:
        op = c['op']
        if op == 'abort_multipart_upload':
            continue
        shape = shapes[OPS[op]]
        kw = c['kwargs']
        unknown = [n for n in c['names'] if n not in shape]
        if unknown:
            v.append((f'c15:{front}:{mode}:{op}:unknown-parameter:'
                      f'{",".join(sorted(unknown))}',
                      f'{op} received {unknown}, not in its input shape'))
        for a in args:
            want = a in shape
            has = a in kw
            if want and not has:
                v.append((f'c15:{front}:{mode}:{op}:not-forwarded:{a}',
                          f'{a} is a member of {OPS[op]} but {op} did not '
                          f'receive it'))
            elif want and kw[a] is not sent[a]:
                v.append((f'c15:{front}:{mode}:{op}:modified:{a}',
                          f'{op} received {a}={kw[a]!r}'))
    return v


# ---------------------------------------------------------------- pool
def pp_cells():
    from s3transfer.constants import ALLOWED_DOWNLOAD_ARGS
    al = list(ALLOWED_DOWNLOAD_ARGS)
    out = []
    names = set()
    for sh in op_shapes().values():
        names |= set(sh)
    for mode in ('single', 'multi'):
        for provided in (False, True):
            for a in al:
                out.append(('pp', mode, provided, (a,)))
            out.append(('pp', mode, provided, tuple(al)))
    for n in sorted(names | {'Foo'}):
        if n not in al and n not in LIB_ARGS:
            out.append(('pp', 'single', False, (n,)))
    return out


def run_pp_cell(cell):
    from ..pp import run_pp_case
    from s3transfer.constants import ALLOWED_DOWNLOAD_ARGS
    _, mode, provided, args = cell
    extra = {a: sentinel(a) for a in args}
    case = {'cfg': {'multipart_threshold': 8, 'multipart_chunksize': 4,
                    'workers': 1}, 'strict': False,
            'downloads': [{'size': 3 if mode == 'single' else 10,
                           'preexist': None, 'expected_size': provided,
                           'extra': extra}],
            'faults': [], 'scripts': {}, 'cancels': [],
            'end': {'how': 'shutdown', 'wait_results': True},
            'sched': {'mode': 'walk', 'choices': []},
            'cell': ['pp', mode, provided, sorted(args)]}
    R = run_pp_case(case)
    if R.harness_error is not None:
        raise R.harness_error
    t = R.transfers[0]
    t['extra_sent'] = extra
    if t.get('submit_exc') is not None:
        t['outcome'] = {'ok': False, 'exc': t['submit_exc']}
    return case, judge_simple(R, 'processpool', mode, args,
                              list(ALLOWED_DOWNLOAD_ARGS))
