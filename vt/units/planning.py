"""C14: part-planning arithmetic against validity predicates."""
import re

from hypothesis import strategies as st

MiB = 1024 ** 2
GiB = 1024 ** 3
TiB = 1024 ** 4
S3_MIN_PART = 5 * MiB
S3_MAX_PART = 5 * GiB
S3_MAX_PARTS = 10000
S3_MAX_OBJECT = 5 * TiB


def ceil_div(a, b):
    return -(-a // b)


def parse_range(s):
    m = re.match(r'^bytes=(\d+)-(\d*)$', s)
    if not m:
        return None
    return int(m.group(1)), (int(m.group(2)) if m.group(2) else None)


def check_ranges(size, part, with_total):
    """calculate_num_parts + calculate_range_parameter tile [0,size)."""
    from s3transfer.utils import calculate_num_parts, \
        calculate_range_parameter
    n = calculate_num_parts(size, part)
    if n != ceil_div(size, part):
        return ('num-parts', f'calculate_num_parts({size},{part})={n}, '
                f'expected {ceil_div(size, part)}')
    nxt = 0
    for i in range(n):
        s = calculate_range_parameter(part, i, n,
                                      size if with_total else None)
        r = parse_range(s)
        if r is None:
            return ('range-syntax', f'{s!r}')
        a, b = r
        if a != nxt:
            return ('range-gap-or-overlap',
                    f'size {size} part {part}: range {i} = {s}, expected '
                    f'start {nxt}')
        if i == n - 1:
            if with_total:
                if b != size - 1:
                    return ('range-last-end',
                            f'size {size} part {part}: last range {s} must '
                            f'end at {size - 1}')
            elif b is not None and b != size - 1:
                return ('range-last-end', f'last range {s}')
            nxt = size
        else:
            if b is None or b != a + part - 1:
                return ('range-end', f'size {size} part {part}: range {i} '
                        f'= {s}')
            nxt = b + 1
    if n and nxt != size:
        return ('range-cover', f'ranges end at {nxt}, size {size}')
    return None


def check_adjuster(lo, hi, maxparts, chunk, size, obj_limit=None):
    """ChunksizeAdjuster(min=lo,max=hi,parts=maxparts).adjust(chunk,size)."""
    from s3transfer.utils import ChunksizeAdjuster
    adj = ChunksizeAdjuster(max_size=hi, min_size=lo, max_parts=maxparts)
    c = adj.adjust_chunksize(chunk, size)
    if not isinstance(c, int):
        return ('adjuster-type', f'adjust({chunk},{size}) -> {c!r}')
    if c < lo or c > hi:
        return ('adjuster-limits',
                f'adjust({chunk},{size}) = {c} outside [{lo},{hi}]')
    limit = hi * maxparts if obj_limit is None else min(obj_limit,
                                                        hi * maxparts)
    if size is not None and size <= limit:
        n = ceil_div(size, c)
        if n > maxparts:
            return ('adjuster-too-many-parts',
                    f'adjust({chunk},{size}) = {c} gives {n} parts > '
                    f'{maxparts}')
    ok = lo <= chunk <= hi and (size is None
                                or ceil_div(size, chunk) <= maxparts)
    if ok and c != chunk:
        return ('adjuster-changed-valid-chunk',
                f'adjust({chunk},{size}) = {c} although {chunk} already '
                f'satisfies all limits')
    return None


def boundary_sizes():
    out = set()
    for j in range(0, 43):
        out |= {2 ** j - 1, 2 ** j, 2 ** j + 1}
    for b in (S3_MIN_PART, S3_MAX_PART, S3_MAX_OBJECT, 8 * MiB, 16 * MiB,
              S3_MIN_PART * S3_MAX_PARTS, 8 * MiB * S3_MAX_PARTS):
        out |= {b - 1, b, b + 1}
    return sorted(x for x in out if 0 <= x <= S3_MAX_OBJECT)


def boundary_chunks():
    out = {1, 2, 3, 7, 1000, 8 * MiB, 16 * MiB, 64 * MiB, 100 * MiB + 1}
    for b in (S3_MIN_PART, S3_MAX_PART, 6 * GiB):
        out |= {b - 1, b, b + 1}
    for j in (10, 20, 22, 23, 24, 30, 32, 33):
        out |= {2 ** j - 1, 2 ** j, 2 ** j + 1}
    return sorted(x for x in out if x >= 1)


@st.composite
def real_scale_points(draw):
    chunks = boundary_chunks()
    c = draw(st.one_of(st.sampled_from(chunks), st.integers(1, 6 * GiB)))
    k = draw(st.integers(0, 12000))
    d = draw(st.sampled_from([-1, 0, 1]))
    size = draw(st.one_of(
        st.sampled_from(boundary_sizes()),
        st.just(max(0, min(S3_MAX_OBJECT, k * c + d))),
        st.integers(0, S3_MAX_OBJECT)))
    return {'kind': 'real', 'size': size, 'chunk': c,
            'none': draw(st.sampled_from([False, False, False, True]))}


def check_real_point(p):
    size, c = p['size'], p['chunk']
    v = check_adjuster(S3_MIN_PART, S3_MAX_PART, S3_MAX_PARTS, c,
                       None if p.get('none') else size, S3_MAX_OBJECT)
    if v:
        return ('real:' + v[0], v[1])
    # num parts / ranges for downloads at the configured chunk (bounded
    # number of parts so the case stays cheap: check ends + a sample)
    from s3transfer.utils import calculate_num_parts, \
        calculate_range_parameter
    n = calculate_num_parts(size, c)
    if n != ceil_div(size, c):
        return ('real:num-parts',
                f'calculate_num_parts({size},{c})={n}, expected '
                f'{ceil_div(size, c)} (float rounding?)')
    for i in sorted({0, 1, n // 2, n - 2, n - 1}):
        if 0 <= i < n:
            r = parse_range(calculate_range_parameter(c, i, n, size))
            if r is None or r[0] != i * c or r[1] != min(size,
                                                         (i + 1) * c) - 1:
                return ('real:range', f'size {size} chunk {c} part {i}: {r}')
    return None
