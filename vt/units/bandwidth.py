"""C13: the leaky-bucket bandwidth limiter in virtual time.

A discrete-event simulation on the real LeakyBucket / BandwidthLimitedStream
objects: the `time` module of s3transfer.bandwidth is the scheduler clock, so
sleeps take no wall time and every history is a deterministic function of the
case.  Case JSON:
  max_bw       bytes per second
  threshold    bytes_threshold of every stream
  streams      [[ [size, think], ... ] per stream]  (think = seconds before
               the read; values biased to amount/max_bw * {0, .5, .99, 1,
               1.01, 1.25})
  late         list of late wake-up delays added to limiter sleeps in order
  abandon      [[stream index, virtual time] ...] coordinator failed then
  sched        schedule spec
"""
from hypothesis import strategies as st

K_BURST = 3
TOL = 1e-9


@st.composite
def histories(draw):
    from ..gen import schedules
    if draw(st.integers(0, 4)) == 0:
        # sustained overload: many saturated streams with equal reads (the
        # class in which a limiter that admits too much shows as a rate
        # violation beyond the burst allowance)
        max_bw = draw(st.sampled_from([10, 100, 1000]))
        size = draw(st.sampled_from([16, 100, 1000]))
        f = draw(st.sampled_from([0.0, 0.0, 0.3, 0.5, 0.7]))
        if f == 0.0:
            n = draw(st.integers(3, 8))
            k = draw(st.integers(8, 14))
        else:
            # steady demand at 1/f times the limit from one or two streams,
            # long enough for the excess to outgrow the burst allowance
            n = draw(st.integers(1, 2))
            k = draw(st.integers(30, 60))
        think = f * size / max_bw
        return {'kind': 'des', 'max_bw': max_bw,
                'threshold': draw(st.sampled_from([1, 4, 16])),
                'tick': draw(st.sampled_from([0.0, 1e-6])),
                'streams': [[[size, think]] * k for _ in range(n)],
                'late': [], 'abandon': [], 'saturated': f == 0.0,
                'sched': draw(schedules(40))}
    max_bw = draw(st.sampled_from([1, 10, 100, 100, 1000, 4096]))
    nstreams = draw(st.integers(1, 8))
    threshold = draw(st.sampled_from([1, 1, 4, 16, 64, 256]))
    sat = draw(st.sampled_from([False, False, True]))
    uniform = draw(st.sampled_from([None, None, 16, 100, 1000]))
    streams = []
    for s in range(nstreams):
        n = draw(st.integers(1, 8 if uniform is None else 14))
        script = []
        for _ in range(n):
            size = uniform or draw(
                st.sampled_from([1, 2, 5, 16, 64, 100, 256, 1000]))
            if sat:
                think = 0.0
            else:
                f = draw(st.sampled_from([0, 0, 0.5, 0.99, 1.0, 1.01, 1.25,
                                          2.0, 10.0]))
                think = f * size / max_bw
            script.append([size, think])
        streams.append(script)
    late = draw(st.lists(st.sampled_from([0.0, 0.0, 0.001, 0.1, 1.0]),
                         max_size=6))
    horizon = sum(sz for s in streams for sz, _ in s) / max_bw
    abandon = draw(st.lists(
        st.tuples(st.integers(0, nstreams - 1),
                  st.floats(0, max(horizon, 0.001), allow_nan=False)),
        max_size=2))
    tick = draw(st.sampled_from([0.0, 1e-6, 1e-6, 1e-4]))
    return {'kind': 'des', 'max_bw': max_bw, 'threshold': threshold,
            'tick': tick,
            'streams': streams, 'late': late,
            'abandon': [list(a) for a in abandon], 'saturated': sat,
            'sched': draw(schedules(60))}


class _Src:
    def read(self, n):
        return b'x' * n

    def close(self):
        pass


def run_history(case):
    from ..detsched import Scheduler, make_policy, SchedAbort
    from ..e2e import patched
    import s3transfer.bandwidth as bw
    sched = Scheduler(make_policy(case.get('sched')), max_steps=50000)
    sched.tick = case.get('tick') or 0.0
    max_bw = case['max_bw']
    probes = []
    reads = []        # (t_return, stream, size, t_request, nsleeps)
    spans = []        # (step enter, step exit, stream, amount, nsleeps)
    sleeps = []       # (t, stream, duration, waiting_amounts, own_amt)
    outcome = {}
    waiting = {}      # stream -> amount currently parked in a limiter sleep
    late = list(case.get('late') or [])
    cur_stream = {}
    exc_of = {}
    state = {'viol': None}

    class Time:
        def time(self):
            return sched.clock

        def sleep(self, d):
            tid = sched.cur.tid
            s = cur_stream.get(tid)
            amt = state.get(('amt', s), 0)
            w = dict(waiting)
            sleeps.append((sched.clock, s, d, w, amt, sched.step))
            state[('nsleep', s)] = state.get(('nsleep', s), 0) + 1
            waiting[s] = amt
            extra = late.pop(0) if late else 0.0
            try:
                sched.sleep(d + extra)
            finally:
                waiting.pop(s, None)

    t0_clock = sched.clock

    def main():
        from s3transfer.futures import TransferCoordinator
        bucket = bw.LeakyBucket(max_bw)
        coords = []
        streams = []
        for i, script in enumerate(case['streams']):
            c = TransferCoordinator(transfer_id=i)
            coords.append(c)
            streams.append(bw.BandwidthLimitedStream(
                _Src(), bucket, c, bw.TimeUtils(),
                bytes_threshold=case['threshold']))

        def runner(i, script):
            def run():
                cur_stream[sched.cur.tid] = i
                seen = 0
                try:
                    for (size, think) in script:
                        if think > 0:
                            sched.sleep(think)
                        else:
                            sched.yield_('think0')
                        t0 = sched.clock
                        step0 = sched.step
                        seen += size
                        state[('amt', i)] = seen if seen >= \
                            case['threshold'] else 0
                        state[('nsleep', i)] = 0
                        had_exc = coords[i].exception is not None
                        data = streams[i].read(size)
                        if seen >= case['threshold']:
                            seen = 0
                        reads.append((sched.clock, i, size, t0,
                                      state[('nsleep', i)], had_exc))
                        spans.append((step0, sched.step, i,
                                      state[('amt', i)],
                                      state[('nsleep', i)]))
                    outcome[i] = 'finished'
                except SchedAbort:
                    raise
                except Exception as e:  # noqa
                    outcome[i] = ('raised', e, sched.clock,
                                  state.get(('nsleep', i), 0))
                    spans.append((step0, sched.step, i, state[('amt', i)],
                                  state[('nsleep', i)]))
            return run

        def abandoner(i, t):
            def run():
                d = t0_clock + t - sched.clock
                if d > 0:
                    sched.sleep(d)
                e = RuntimeError(f'stream {i} abandoned')
                coords[i].set_exception(e)
                # the failure counts from the moment set_exception returned
                # (the call itself can be preempted at the coordinator lock)
                exc_of[i] = (e, sched.clock)
            return run
        runners = []
        for i, script in enumerate(case['streams']):
            runners.append(sched.spawn(runner(i, script), f'stream{i}'))
        for (i, t) in case.get('abandon') or []:
            if i < len(coords) and i not in [a for a, _ in
                                              state.get('ab', [])]:
                state.setdefault('ab', []).append((i, t))
                sched.spawn(abandoner(i, t), f'abandon{i}')
        if sched.tick:
            # probe phase (only when time strictly advances, so that two
            # consumptions never carry the same timestamp): long after all
            # streams are finished, tiny reads separated by long idle
            # periods must stop being throttled - throttling must not slow
            # transfers permanently
            sched.point(lambda: all(not r.alive for r in runners),
                        'probe.wait')
            pc = TransferCoordinator(transfer_id=99)
            ps = bw.BandwidthLimitedStream(_Src(), bucket, pc,
                                           bw.TimeUtils(), bytes_threshold=1)
            cur_stream[sched.cur.tid] = 'probe'
            idle = 100.0 + 1000.0 * 1000 / max_bw
            for k in range(200):
                sched.sleep(idle)
                state[('nsleep', 'probe')] = 0
                state[('amt', 'probe')] = 1
                ps.read(1)
                probes.append(state[('nsleep', 'probe')])
                if len(probes) >= 3 and not any(probes[-3:]):
                    break     # recovered

    saved_time = bw.time
    with patched(sched):
        bw.time = Time()
        try:
            sched.run(main)
        finally:
            bw.time = saved_time
    info = {'refused': len(sleeps), 'streams': len(case['streams']),
            'abandoned_parked': False}
    if sched.deadlock:
        return (('des:deadlock', f'{sched.deadlock}'), info)
    if sched.budget_exceeded:
        return (('des:livelock', 'step budget exceeded'), info)
    if sched.errors:
        return ((f'des:exception:{type(sched.errors[0][1]).__name__}',
                 repr(sched.errors[0])), info)
    nstreams = len(case['streams'])
    abandoned = {i for i in exc_of}
    if probes and all(p > 0 for p in probes[-3:]):
        return (('des:permanently-throttled',
                 f'after all streams finished, {len(probes)} one-byte reads '
                 f'separated by long idle periods were all still being '
                 f'delayed: throttling never recovers'), info)
    sleeps[:] = [x for x in sleeps if x[1] != 'probe']
    # (v) every non-abandoned stream finishes
    for i in range(nstreams):
        o = outcome.get(i)
        if i not in abandoned and o != 'finished':
            return (('des:stream-did-not-finish', f'stream {i}: {o}'), info)
        if i in abandoned and isinstance(o, tuple):
            e, t_set = exc_of[i]
            if o[1] is not e:
                return (('des:abandoned-wrong-exception',
                         f'stream {i} raised {o[1]!r}, coordinator has '
                         f'{e!r}'), info)
    # (iv) no sleep is requested by a stream after its coordinator failed,
    # and its next limiter interaction raises
    after = {}
    for (t, s, d, w, amt, stp) in sleeps:
        if s in exc_of and t > exc_of[s][1] + TOL:
            # one sleep may race the failure (its check of the transfer's
            # error came first); a second one means it keeps waiting
            after[s] = after.get(s, 0) + 1
            if after[s] >= 2:
                return (('des:sleep-after-failure',
                         f'stream {s} requested {after[s]} sleeps (last at '
                         f't={t}) after its transfer failed at '
                         f't={exc_of[s][1]}'), info)
        if s in exc_of and exc_of[s][1] > t and exc_of[s][1] < t + d:
            info['abandoned_parked'] = True
    for (a, b, i, am, ns) in spans:
        pass
    for (t_ret, i, size, t0, ns, had_exc) in reads:
        if had_exc and (size >= case['threshold']):
            return (('des:read-succeeded-after-failure',
                     f'stream {i}: a read of {size} bytes that had to go '
                     f'through the limiter returned normally although the '
                     f'transfer had already failed'), info)
        if had_exc and ns > 0:
            return (('des:waited-after-failure',
                     f'stream {i} slept in a read issued after its '
                     f'transfer had failed'), info)
    # (iii) one wait per throttled read, bounded by the currently waiting
    per_read_sleeps = {}
    for (t_ret, i, size, t0, ns, had_exc) in reads:
        if ns > 1:
            return (('des:read-slept-more-than-once',
                     f'stream {i}: read of {size} at t={t0} slept {ns} '
                     f'times'), info)
    for (t, s, d, w, amt, stp) in sleeps:
        # reads currently waiting: refused (they sleep at some point) and
        # not yet granted - including one that was refused but has not
        # reached its sleep call yet
        # (the refusal itself happened somewhere between the start of this
        # read and the sleep call, so every throttled read overlapping that
        # interval counts - a superset, which keeps the check sound)
        a_self = max([a for (a, b, i, am, ns) in spans
                      if i == s and a <= stp <= b] or [stp])
        w = {}
        for (a, b, i, am, ns) in spans:
            if i != s and ns >= 1 and a <= stp and b >= a_self:
                w[(i, a)] = am
        bound = (sum(w.values()) + amt) / max_bw
        if d > bound * (1 + TOL) + TOL:
            return (('des:sleep-too-long',
                     f'stream {s} at t={t:.6f} was told to sleep {d:.6f}s; '
                     f'reads currently waiting {w} + its own {amt} bytes '
                     f'need only {bound:.6f}s at {max_bw} B/s'), info)
    # (ii) demand below the limit is never delayed
    if case['threshold'] <= 1 and not abandoned:
        demand = []
        for i, script in enumerate(case['streams']):
            t = 0.0
            for (size, think) in script:
                t += think
                demand.append((t, i, size))
        demand.sort()
        below = True
        for k in range(1, len(demand)):
            dt = demand[k][0] - demand[k - 1][0]
            if dt <= 0 or demand[k][2] / dt > max_bw * (1 - 1e-6):
                below = False
                break
        info['below'] = below
        if below and sleeps:
            return (('des:delayed-below-limit',
                     f'demand {demand} stays below {max_bw} B/s yet a sleep '
                     f'of {sleeps[0][2]}s was requested'), info)
    # (i) rate bound over every window of read events
    ev = sorted((t_ret, size) for (t_ret, i, size, t0, ns, h) in reads)
    if ev:
        largest = max(size for _, size in ev)
        burst = K_BURST * (case['threshold'] + largest) * nstreams
        factor = 1.0 if case.get('saturated') and not case.get('late') \
            else 1.25
        pre = [0]
        for _, size in ev:
            pre.append(pre[-1] + size)
        worst = 0.0
        for a in range(len(ev)):
            for b in range(a, len(ev)):
                B = pre[b + 1] - pre[a]
                T = ev[b][0] - ev[a][0]
                allow = factor * max_bw * T + burst
                if B > allow * (1 + 1e-9):
                    return (('des:rate-exceeded',
                             f'{B} bytes moved in a window of {T:.6f}s '
                             f'(limit {max_bw} B/s x {factor} + burst '
                             f'{burst})'), info)
                worst = max(worst, (B - factor * max_bw * T) / max(
                    (case['threshold'] + largest) * nstreams, 1))
        info['worst_burst_units'] = worst
    return None, info
