"""C12: SlidingWindowSemaphore / TaskSemaphore against a reference model.

Sequential histories (exhaustive DFS + drawn), blocking histories under the
deterministic scheduler.  Double release of a still-pending token and release
of an already retired token are NOT generated (the statement covers unknown
tags and never-issued tokens only, DESIGN 3.7).
"""
from hypothesis import strategies as st

TAGS = ['a', 'b', 'c']


class Model:
    """Reference model written from the statement of C12."""

    def __init__(self, capacity):
        self.C = capacity
        self.next = {}        # tag -> next token
        self.released = {}    # tag -> set of released tokens
        self.lowest = {}      # tag -> lowest unreleased token

    def count(self):
        used = 0
        for t, nx in self.next.items():
            used += nx - self.lowest[t]     # lowest unreleased .. newest
        return self.C - used

    def held(self, tag):
        return [k for k in range(self.lowest.get(tag, 0),
                                 self.next.get(tag, 0))
                if k not in self.released.get(tag, ())]

    def acquire(self, tag):
        if self.count() == 0:
            return ('raise', 'NoResourcesAvailable')
        k = self.next.get(tag, 0)
        self.next[tag] = k + 1
        self.released.setdefault(tag, set())
        self.lowest.setdefault(tag, 0)
        return ('ok', k)

    def release(self, tag, tok):
        if tag not in self.next:
            return ('raise', 'ValueError')
        if tok >= self.next[tag] or tok < 0:
            return ('raise', 'ValueError')
        self.released[tag].add(tok)
        while self.lowest[tag] in self.released[tag]:
            self.released[tag].discard(self.lowest[tag])
            self.lowest[tag] += 1
        return ('ok', None)

    def ops(self):
        """Operations enabled in this state (up to tag renaming)."""
        out = []
        used = [t for t in TAGS if t in self.next]
        cands = used + ([TAGS[len(used)]] if len(used) < len(TAGS) else [])
        for t in cands:
            out.append(('acq', t))
        for t in used:
            for k in self.held(t):
                out.append(('rel', t, k))
        out.append(('rel', 'zz', 0))               # unknown tag
        for t in used:
            out.append(('rel', t, self.next[t]))   # never-issued token
        return out


def apply_real(sem, op):
    from s3transfer.utils import NoResourcesAvailable
    try:
        if op[0] == 'acq':
            return ('ok', sem.acquire(op[1], False))
        sem.release(op[1], op[2])
        return ('ok', None)
    except NoResourcesAvailable:
        return ('raise', 'NoResourcesAvailable')
    except ValueError:
        return ('raise', 'ValueError')
    except Exception as e:  # noqa
        return ('raise', type(e).__name__)


def run_sequence(capacity, ops):
    from ..detsched import inline_patched
    with inline_patched():
        return _run_sequence(capacity, ops)


def _run_sequence(capacity, ops):
    """Replays ops on a fresh real semaphore and the model.  Returns
    (violation or None, info).  Runs on the inline shim: an operation that
    would block forever raises WouldBlock instead of hanging."""
    from s3transfer.utils import SlidingWindowSemaphore
    sem = SlidingWindowSemaphore(capacity)
    m = Model(capacity)
    ooo = False
    for i, op in enumerate(ops):
        if op[0] == 'rel' and op[1] in m.next and op[2] < m.next[op[1]] \
                and op[2] != m.lowest[op[1]]:
            ooo = True
        exp = m.acquire(op[1]) if op[0] == 'acq' else m.release(op[1], op[2])
        got = apply_real(sem, op)
        if got != exp:
            kind = ('rejected-release' if exp[0] == 'raise' and op[0] == 'rel'
                    else op[0])
            return ((f'{kind}:expected-{exp[0]}-got-{got[0]}',
                     f'capacity {capacity}, history {ops[:i + 1]}: '
                     f'{op} returned {got}, model says {exp}'), {})
        c = sem.current_count()
        if c != m.count():
            return ((f'count-after-{op[0]}',
                     f'capacity {capacity}, history {ops[:i + 1]}: '
                     f'current_count()={c}, model says {m.count()}'), {})
    return None, {'ooo': ooo}


def dfs(capacity, depth, shard, nshards, visit):
    """Enumerate every sequence of exactly <= depth ops; visit(ops) for each
    leaf (maximal or depth-bounded).  Sharded on the first two choices."""
    count = [0]

    def rec(m_ops, idx_path):
        m = Model(capacity)
        for op in m_ops:
            if op[0] == 'acq':
                m.acquire(op[1])
            else:
                m.release(op[1], op[2])
        if len(m_ops) == depth:
            count[0] += 1
            visit(m_ops)
            return
        for j, op in enumerate(m.ops()):
            if len(m_ops) == 1:
                # shard on (first, second) op index
                if (idx_path[0] * 31 + j) % nshards != shard:
                    continue
            rec(m_ops + [op], idx_path + [j])
    rec([], [])
    return count[0]


def count_leaves(capacity, depth):
    def rec(m, d):
        if d == depth:
            return 1
        tot = 0
        for op in m.ops():
            m2 = Model(m.C)
            m2.next = dict(m.next)
            m2.released = {k: set(v) for k, v in m.released.items()}
            m2.lowest = dict(m.lowest)
            if op[0] == 'acq':
                m2.acquire(op[1])
            else:
                m2.release(op[1], op[2])
            tot += rec(m2, d + 1)
        return tot
    return rec(Model(capacity), 0)


@st.composite
def sequences(draw, max_len=40):
    cap = draw(st.integers(1, 5))
    n = draw(st.integers(1, max_len))
    picks = draw(st.lists(st.integers(0, 40), min_size=n, max_size=n))
    m = Model(cap)
    ops = []
    for p in picks:
        cands = m.ops()
        # bias: releases of held tokens and acquires over rejected ones
        op = cands[p % len(cands)]
        ops.append(list(op))
        if op[0] == 'acq':
            m.acquire(op[1])
        else:
            m.release(op[1], op[2])
    return {'kind': 'seq', 'cap': cap, 'ops': ops}


# ------------------------------------------------------------- plain
def run_task_semaphore(capacity, ops):
    from ..detsched import inline_patched
    with inline_patched():
        return _run_task_semaphore(capacity, ops)


def _run_task_semaphore(capacity, ops):
    """ops: list of 'a' (non-blocking acquire) / 'r' (release one held)."""
    from s3transfer.utils import TaskSemaphore, NoResourcesAvailable
    sem = TaskSemaphore(capacity)
    held = 0
    for i, op in enumerate(ops):
        if op == 'a':
            try:
                sem.acquire('t', False)
                got = 'ok'
            except NoResourcesAvailable:
                got = 'raise'
            except Exception as e:  # noqa
                got = type(e).__name__
            exp = 'ok' if held < capacity else 'raise'
            if got != exp:
                return (f'task-semaphore:acquire-{got}',
                        f'capacity {capacity}, ops {ops[:i + 1]}: acquire '
                        f'{got}, expected {exp} (held {held})')
            if got == 'ok':
                held += 1
        elif held:
            sem.release('t', None)
            held -= 1
    return None


# ------------------------------------------------------------- blocking
@st.composite
def blocking_cases(draw):
    cap = draw(st.integers(1, 3))
    ntags = draw(st.integers(1, 2))
    # initial non-blocking acquires by the main thread (fill up)
    init = draw(st.lists(st.integers(0, ntags - 1),
                         min_size=draw(st.sampled_from([cap, cap, 0, 1])
                                       ) if cap > 1 else
                         draw(st.sampled_from([0, 1])),
                         max_size=cap))
    nacq = draw(st.integers(1, 3))
    acq_tags = draw(st.lists(st.integers(0, ntags - 1), min_size=nacq,
                             max_size=nacq))
    nrel = draw(st.integers(1, 2))
    order = draw(st.permutations(list(range(len(init)))))
    split = draw(st.integers(0, len(init)))
    from ..gen import schedules
    return {'kind': 'block', 'cap': cap, 'init': init, 'acq': acq_tags,
            'order': list(order), 'nrel': nrel, 'split': split,
            'hold': draw(st.lists(st.booleans(), min_size=nacq,
                                  max_size=nacq)),
            # which of the concurrent acquirers use blocking=False
            'nb': draw(st.lists(st.sampled_from([False, False, True]),
                                min_size=nacq, max_size=nacq)),
            'sched': draw(schedules(60))}


def run_blocking(case):
    """<=3 blocking acquirers, 1-2 releasers; every issued token is released.
    Returns (violation or None, info)."""
    from ..detsched import Scheduler, make_policy, SchedAbort
    from ..e2e import patched
    sched = Scheduler(make_policy(case.get('sched')), max_steps=5000)
    got = []
    refused = []
    nbs = list(case.get('nb') or [False] * len(case['acq']))
    info = {'blocked': False}
    state = {}

    def main():
        from s3transfer.utils import SlidingWindowSemaphore
        sem = SlidingWindowSemaphore(case['cap'])
        state['sem'] = sem
        held = []
        for t in case['init']:
            tag = TAGS[t]
            held.append((tag, sem.acquire(tag, False)))

        holders = [len(held)]

        def acquirer(tag, hold, nb=False):
            def run():
                if nb:
                    from s3transfer.utils import NoResourcesAvailable
                    try:
                        tok = sem.acquire(tag, False)
                    except NoResourcesAvailable:
                        refused.append(tag)
                        return
                else:
                    tok = sem.acquire(tag, True)
                holders[0] += 1
                if holders[0] > case['cap'] and 'over' not in state:
                    state['over'] = (holders[0], sched.step)
                got.append((tag, tok))
                if hold:
                    sched.yield_('hold')
                holders[0] -= 1
                sem.release(tag, tok)
            return run

        order = [held[i] for i in case['order']]
        chunks = [order] if case['nrel'] == 1 else [
            order[:case['split']], order[case['split']:]]

        def releaser(lst):
            def run():
                for (tag, tok) in lst:
                    holders[0] -= 1
                    sem.release(tag, tok)
                    sched.yield_('between-releases')
            return run
        for k, t in enumerate(case['acq']):
            sched.spawn(acquirer(TAGS[t], case['hold'][k], nbs[k]),
                        f'acq{k}')
        for k, lst in enumerate(chunks):
            sched.spawn(releaser(lst), f'rel{k}')

    with patched(sched):
        sched.run(main)
    info['blocked'] = sched.max_blocked >= 1 or bool(refused)
    info['nchoices'] = sched.nchoices
    info['refused'] = len(refused)
    waited = [f'acq{k}' for k in range(len(nbs))
              if nbs[k] and f'acq{k}' in sched.cond_waiters]
    if waited:
        return (('blocking:nonblocking-acquire-waited',
                 f'acquire(tag, blocking=False) parked on the condition in '
                 f'{waited} instead of raising NoResourcesAvailable; '
                 f'case {case}'), info)
    if sched.deadlock:
        return (('blocking:acquirer-stranded',
                 f'deadlock {sched.deadlock} although every issued token is '
                 f'released; case {case}'), info)
    if sched.budget_exceeded:
        return (('blocking:livelock', 'step budget exceeded'), info)
    if sched.errors:
        return ((f'blocking:exception:{type(sched.errors[0][1]).__name__}',
                 repr(sched.errors[0])), info)
    if 'over' in state:
        return (('blocking:more-permits-than-capacity',
                 f'{state["over"][0]} permits were held at once with '
                 f'capacity {case["cap"]} (step {state["over"][1]})'), info)
    if len(set(got)) != len(got):
        return (('blocking:duplicate-token',
                 f'two acquirers received the same token: {got}'), info)
    if len(got) + len(refused) != len(case['acq']):
        return (('blocking:acquirer-missing', f'{got} {refused}'), info)
    # tokens per tag are consecutive after the initial ones
    for t in set(case['acq']):
        tag = TAGS[t]
        base = sum(1 for x in case['init'] if x == t)
        toks = sorted(k for (g, k) in got if g == tag)
        if toks != list(range(base, base + len(toks))):
            return (('blocking:token-sequence',
                     f'tag {tag}: acquirers got {toks}, expected '
                     f'{list(range(base, base + len(toks)))}'), info)
    return None, info


def systematic_blocking(shard, nshards, visit):
    """Bounded-preemption exploration (every single and every pair of
    preemption points) of small fixed blocking scenarios."""
    idx = 0
    for cap in (1, 2):
        for nacq in (2, 3):
            for ntag in (1, 2):
              for ninit in range(cap + 1):
                for hold in (False, True):
                    idx += 1
                    if idx % nshards != shard:
                        continue
                    base = {'kind': 'block', 'cap': cap,
                            'init': [i % ntag for i in range(ninit)],
                            'acq': [i % ntag for i in range(nacq)],
                            'order': list(range(ninit))[::-1], 'nrel': 1,
                            'split': 0, 'hold': [hold] * nacq}
                    # the same scenario with the first (then the last)
                    # acquirer non-blocking: zero and single preemptions
                    for nbk in (0, nacq - 1):
                        nbv = [i == nbk for i in range(nacq)]
                        b2 = dict(base, nb=nbv)
                        c0 = dict(b2, sched={'mode': 'preempt', 'at': []})
                        viol, info = run_blocking(c0)
                        visit(c0, viol, info)
                        for i in range(info.get('nchoices', 40)):
                            for k in (1, 2):
                                c = dict(b2, sched={'mode': 'preempt',
                                                    'at': [[i, k]]})
                                viol, info2 = run_blocking(c)
                                visit(c, viol, info2)
                    # dry run to learn the number of real choices
                    from ..detsched import Scheduler
                    c0 = dict(base, sched={'mode': 'preempt', 'at': []})
                    viol, info = run_blocking(c0)
                    visit(c0, viol, info)
                    n = info.get('nchoices', 40)
                    singles = [(i, k) for i in range(n) for k in (1, 2)]
                    for a in singles:
                        c = dict(base, sched={'mode': 'preempt',
                                              'at': [list(a)]})
                        viol, info = run_blocking(c)
                        visit(c, viol, info)
                    for x in range(len(singles)):
                        for y in range(x + 1, len(singles)):
                            if singles[x][0] == singles[y][0]:
                                continue
                            c = dict(base, sched={
                                'mode': 'preempt',
                                'at': [list(singles[x]), list(singles[y])]})
                            viol, info = run_blocking(c)
                            visit(c, viol, info)
