"""C20: the Python glue of the CRT-based manager against a stub `awscrt`.

The real awscrt is absent in this sandbox.  A stub package is installed in
sys.modules (after botocore and s3transfer.manager are imported - botocore
probes awscrt itself), then s3transfer.crt is imported.  The stub S3 client
records make_request() arguments and returns a request whose finished_future,
cancel() and on_done/on_progress/on_body callbacks are driven by the harness
from controlled "CRT threads" under the deterministic scheduler.

Case JSON:
  permits    capacity the 128-permit semaphore is swapped to (1..3)
  transfers  [{'type': 'upload'|'download'|'delete', 'target': 'path'|
               'stream', 'size': n, 'subs': k, 'fail': None|'serializer'|
               'make_request'|'on_queued', 'finish': 'ok'|'error'|'cancel',
               'raise_done': bool}]
  order      completion order (permutation indices) of the CRT thread(s)
  nthreads   number of CRT completion threads (1-2)
  end        {'how': 'shutdown'|'shutdown_cancel'|'with'|'with_exc', 'at'}
  faults     fs.rename faults
  sched      schedule spec
"""
import sys
import types

from . import detsched
from .detsched import Scheduler, SchedAbort, make_policy, HarnessError
from .fakes3 import Trace, FaultPlan, pattern_bytes, InjectedFault
from . import fakefs

_INSTALLED = False


class StubCrtError(Exception):
    pass


def install_stub():
    global _INSTALLED
    if _INSTALLED:
        return
    import botocore.session  # noqa  (must precede the stub)
    import s3transfer.manager  # noqa
    import enum
    pkg = types.ModuleType('awscrt')
    pkg.__version__ = '0.0.0-vtstub'
    pkg.__path__ = []
    http = types.ModuleType('awscrt.http')
    s3 = types.ModuleType('awscrt.s3')
    auth = types.ModuleType('awscrt.auth')
    io_ = types.ModuleType('awscrt.io')
    exc = types.ModuleType('awscrt.exceptions')

    class HttpRequest:
        def __init__(self, method='GET', path='/', headers=None,
                     body_stream=None):
            self.method = method
            self.path = path
            self.headers = headers
            self.body_stream = body_stream

    class HttpHeaders(list):
        pass
    http.HttpRequest = HttpRequest
    http.HttpHeaders = HttpHeaders

    class S3RequestType(enum.Enum):
        DEFAULT = 0
        GET_OBJECT = 1
        PUT_OBJECT = 2

    class S3RequestTlsMode(enum.Enum):
        ENABLED = 0
        DISABLED = 1

    class S3ChecksumAlgorithm(enum.Enum):
        CRC32C = 1
        CRC32 = 2
        SHA1 = 3
        SHA256 = 4
        CRC64NVME = 5

    class S3ChecksumLocation(enum.Enum):
        HEADER = 1
        TRAILER = 2

    class S3ChecksumConfig:
        def __init__(self, algorithm=None, location=None,
                     validate_response=False):
            self.algorithm = algorithm
            self.location = location
            self.validate_response = validate_response

    class CrossProcessLock:
        def __init__(self, name):
            self.name = name

        def acquire(self):
            pass

    class S3Client:
        def __init__(self, **kw):
            self.kw = kw
    s3.S3Client = S3Client
    s3.S3RequestType = S3RequestType
    s3.S3RequestTlsMode = S3RequestTlsMode
    s3.S3ChecksumAlgorithm = S3ChecksumAlgorithm
    s3.S3ChecksumLocation = S3ChecksumLocation
    s3.S3ChecksumConfig = S3ChecksumConfig
    s3.CrossProcessLock = CrossProcessLock
    s3.get_recommended_throughput_target_gbps = lambda: None

    class _Any:
        def __init__(self, *a, **kw):
            pass

        @classmethod
        def new_delegate(cls, *a, **kw):
            return cls()

    class AwsSigningAlgorithm(enum.Enum):
        V4 = 0
        V4_ASYMMETRIC = 1
        V4_S3EXPRESS = 2
    auth.AwsCredentials = _Any
    auth.AwsCredentialsProvider = _Any
    auth.AwsSigningAlgorithm = AwsSigningAlgorithm
    auth.AwsSigningConfig = _Any
    for n in ('ClientBootstrap', 'ClientTlsContext', 'DefaultHostResolver',
              'EventLoopGroup', 'TlsContextOptions'):
        setattr(io_, n, _Any)
    exc.AwsCrtError = StubCrtError
    pkg.http, pkg.s3, pkg.auth, pkg.io, pkg.exceptions = (
        http, s3, auth, io_, exc)
    sys.modules.update({
        'awscrt': pkg, 'awscrt.http': http, 'awscrt.s3': s3,
        'awscrt.auth': auth, 'awscrt.io': io_, 'awscrt.exceptions': exc})
    import s3transfer.crt  # noqa
    _INSTALLED = True


class Result:
    pass


def run_crt_case(case):
    install_stub()
    import s3transfer.crt as crt
    from s3transfer.utils import OSUtils as RealOSUtils
    from s3transfer.subscribers import BaseSubscriber
    sched = Scheduler(make_policy(case.get('sched')),
                      max_steps=case.get('max_steps', 30000))
    trace = Trace(sched)
    faults = FaultPlan(case.get('faults'), trace)
    fs = fakefs.MemFS(sched, trace, faults)
    R = Result()
    R.case = case
    R.sched = sched
    R.trace = trace
    R.fs = fs
    R.requests = []
    R.transfers = []
    R.end = {}
    R.harness_error = None
    R.sem_track = {'max': 0, 'min': None}
    R.cb_complete_step = {}
    cap = case.get('permits', 2)

    class Fut:
        def __init__(self):
            self._done = False
            self._exc = None

        def done(self):
            return self._done

        def result(self, timeout=None):
            sched.point(lambda: self._done, 'crt.future.result',
                        interruptible=True)
            if self._exc is not None:
                raise self._exc
            return None

        def _set(self, exc=None):
            self._exc = exc
            self._done = True

    class StubRequest:
        def __init__(self, idx, kwargs):
            self.idx = idx
            self.kwargs = kwargs
            self.finished_future = Fut()
            self.cancel_requested = False
            self.finished = False

        def cancel(self):
            sched.point(None, 'crt.request.cancel')
            self.cancel_requested = True
            trace.ev('crt.cancel', req=self.idx)

    class StubClient:
        def make_request(self, **kwargs):
            sched.point(None, 'crt.make_request')
            t = R.transfers[R.submitting]
            if t['spec'].get('fail') == 'make_request':
                e = InjectedFault('crt.make_request')
                t['construction_exc'] = e
                raise e
            req = StubRequest(len(R.requests), kwargs)
            req.tidx = R.submitting
            R.requests.append(req)
            t['request'] = req
            trace.ev('crt.make_request', t=R.submitting)
            # the request is already running in the CRT threads and may even
            # finish before make_request returns to the caller
            sched.point(None, 'crt.make_request.ret')
            return req

    class Serializer(crt.BaseCRTRequestSerializer):
        def serialize_http_request(self, transfer_type, future):
            t = R.transfers[R.submitting]
            if t['spec'].get('fail') == 'serializer':
                e = InjectedFault('crt.serializer')
                t['construction_exc'] = e
                raise e
            import awscrt.http
            return awscrt.http.HttpRequest('GET', '/')

        def translate_crt_exception(self, exception):
            return None

    class Sub(BaseSubscriber):
        def __init__(self, tidx, sidx, spec):
            self.tidx = tidx
            self.sidx = sidx
            self.spec = spec

        def on_queued(self, future, **kwargs):
            sched.point(None, 'cb.on_queued')
            trace.ev('cb.queued', t=self.tidx, s=self.sidx)
            if self.spec.get('fail') == 'on_queued' and self.sidx == 0:
                e = InjectedFault('cb.on_queued')
                R.transfers[self.tidx]['construction_exc'] = e
                raise e

        def on_progress(self, future, bytes_transferred, **kwargs):
            trace.ev('cb.progress', t=self.tidx, s=self.sidx,
                     n=bytes_transferred)

        def on_done(self, future, **kwargs):
            sched.point(None, 'cb.on_done')
            co = future._coordinator
            trace.ev('cb.done', t=self.tidx, s=self.sidx,
                     complete_flag=co._done_event.is_set(),
                     sem=R.mgr._semaphore._value)
            if self.spec.get('raise_done') and self.sidx == 0:
                raise RuntimeError('on_done raises')

    def poll(s):
        sem = getattr(R, 'sem', None)
        if sem is not None:
            v = sem._value
            if v > R.sem_track['max']:
                R.sem_track['max'] = v
            if R.sem_track['min'] is None or v < R.sem_track['min']:
                R.sem_track['min'] = v
        for t in R.transfers:
            f = t.get('future')
            if f is not None and t['i'] not in R.cb_complete_step:
                if f._coordinator._done_event.is_set():
                    R.cb_complete_step[t['i']] = s.step
    sched.step_hooks.append(poll)

    def finish_request(req):
        """What the CRT does when a request ends (in a CRT thread)."""
        t = R.transfers[req.tidx]
        spec = t['spec']
        how = spec.get('finish', 'ok')
        if req.cancel_requested:
            how = 'cancel'
        err = None
        if how == 'error':
            err = StubCrtError(f'request {req.idx} failed')
        elif how == 'cancel':
            err = StubCrtError(f'request {req.idx} cancelled')
        kw = req.kwargs
        size = spec.get('size', 0)
        data = pattern_bytes(size, 7 + req.tidx)
        # body delivery
        if kw.get('recv_filepath'):
            n = size if err is None else size // 2
            fs.files[kw['recv_filepath']] = bytearray(data[:n])
            fs.mutated('crt-write', kw['recv_filepath'])
        elif kw.get('on_body') is not None and size:
            n = size if err is None else size // 2
            if n:
                kw['on_body'](chunk=data[:n], offset=0)
        if err is None and kw.get('on_progress') is not None and size:
            kw['on_progress'](size)
        t['finish'] = how
        t['error'] = err
        sched.point(None, 'crt.finish')
        req.finished_future._set(err)
        req.finished = True
        trace.ev('crt.finished', t=req.tidx, how=how)
        sched.point(None, 'crt.finish.cb')
        kw['on_done'](error=err, error_headers=None, error_body=None,
                      status_code=200 if err is None else 500)
        trace.ev('crt.on_done_returned', t=req.tidx)

    def crt_thread(k, nthreads):
        def run():
            order = list(case.get('order') or [])
            done_idx = set()
            while True:
                sched.point(lambda: any(
                    (not r.finished and not getattr(r, 'taken', False))
                    for r in R.requests) or R.end.get('no_more'),
                    'crt.idle')
                pend = [r for r in R.requests
                        if not r.finished and not getattr(r, 'taken', False)]
                if not pend:
                    if R.end.get('no_more'):
                        return
                    continue
                pick = order.pop(0) if order else 0
                r = pend[pick % len(pend)]
                r.taken = True
                finish_request(r)
        return run

    def main():
        osutil = fakefs.make_osutils(fs, RealOSUtils)
        saved_os = crt.OSUtils
        crt.OSUtils = lambda: osutil
        try:
            mgr = crt.CRTTransferManager(StubClient(), Serializer())
        finally:
            crt.OSUtils = saved_os
        R.mgr = mgr
        shim = detsched.ThreadingShim(sched)
        mgr._semaphore = shim.Semaphore(cap)
        R.sem = mgr._semaphore
        nthreads = case.get('nthreads', 1)
        for k in range(nthreads):
            sched.spawn(crt_thread(k, nthreads), f'crt{k}', role='crt')
        end = dict(case.get('end') or {'how': 'shutdown'})
        R.end.update(end)
        how = end.get('how', 'shutdown')

        class UserExc(Exception):
            pass

        def body():
            for i, spec in enumerate(case['transfers']):
                t = {'i': i, 'spec': spec, 'future': None}
                R.transfers.append(t)
                R.submitting = i
                subs = [Sub(i, j, spec) for j in range(spec.get('subs', 1))]
                path = f'/d/f{i}'
                t['path'] = path
                size = spec.get('size', 0)
                try:
                    if spec['type'] == 'upload':
                        if spec.get('target') == 'path':
                            fs.files[path] = bytearray(
                                pattern_bytes(size, 7 + i))
                            src = path
                        else:
                            import io
                            src = io.BytesIO(pattern_bytes(size, 7 + i))
                        t['future'] = mgr.upload(src, 'bkt', f'k{i}',
                                                 subscribers=subs)
                    elif spec['type'] == 'download':
                        if spec.get('target') == 'path':
                            dst = path
                            if spec.get('preexist') is not None:
                                fs.files[path] = bytearray(
                                    pattern_bytes(spec['preexist'], 99))
                            t['previous'] = bytes(fs.files[path]) \
                                if path in fs.files else None
                        else:
                            dst = fakefs.NonSeekableSink(sched, trace,
                                                         faults, i)
                            t['sink'] = dst
                        t['future'] = mgr.download('bkt', f'k{i}', dst,
                                                   subscribers=subs)
                    else:
                        t['future'] = mgr.delete('bkt', f'k{i}',
                                                 subscribers=subs)
                except SchedAbort:
                    raise
                except Exception as e:  # noqa
                    t['submit_exc'] = e
                t['submitted_step'] = sched.step
            at = end.get('at')
            if at is not None:
                sched.point(lambda: sched.step >= at or all(
                    (t['future'] is None or t['i'] in R.cb_complete_step)
                    for t in R.transfers), 'user.wait_step')

        try:
            if how.startswith('with'):
                try:
                    with mgr:
                        body()
                        if how == 'with_exc':
                            raise UserExc('x')
                except UserExc:
                    pass
            else:
                body()
                mgr.shutdown(cancel=(how == 'shutdown_cancel'))
            R.end['returned'] = True
            R.end['return_step'] = sched.step
            R.end['complete_at_return'] = [
                t['future'] is None or t['i'] in R.cb_complete_step or
                t['future']._coordinator._done_event.is_set()
                for t in R.transfers]
        finally:
            R.end['no_more'] = True
            sched.point(None, 'user.end')
        for t in R.transfers:
            f = t['future']
            if f is None:
                continue
            try:
                f.result()
                t['outcome'] = ('ok', None)
            except SchedAbort:
                raise
            except BaseException as e:  # noqa
                t['outcome'] = ('exc', e)

    saved_threading = None
    try:
        install_stub()
        import s3transfer.crt as crtmod
        saved_threading = crtmod.threading
        crtmod.threading = detsched.ThreadingShim(sched)
        try:
            sched.run(main)
        except HarnessError as e:
            R.harness_error = e
    finally:
        if saved_threading is not None:
            crtmod.threading = saved_threading
    for name, e in sched.errors:
        R.harness_error = R.harness_error or HarnessError(
            f'uncaught {type(e).__name__} in thread {name}: {e!r}')
    return R


def oracle_c20(R):
    v = []
    s = R.sched
    cap = R.case.get('permits', 2)
    if s.deadlock:
        v.append(('c20:deadlock:' + ','.join(sorted(
            {f'{x[1].rstrip("0123456789")}@{x[2]}' for x in s.deadlock})),
            f'deadlock {s.deadlock}'))
        return v
    if s.budget_exceeded:
        return v
    sem = R.sem
    if R.sem_track['max'] > cap:
        v.append(('c20:permit-over-release',
                  f'semaphore value reached {R.sem_track["max"]} with '
                  f'capacity {cap}: a permit was released more than once'))
    if sem._value != cap:
        v.append((f'c20:permits-at-quiescence={sem._value - cap:+d}',
                  f'semaphore at {sem._value} after all transfers finished, '
                  f'capacity {cap} ({len(R.transfers)} transfers)'))
    evs = R.trace.events
    for t in R.transfers:
        i = t['i']
        spec = t['spec']
        if t['future'] is None:
            continue
        nsubs = spec.get('subs', 1)
        done_steps = {}
        for (step, tid, k, info) in evs:
            if k == 'cb.done' and info.get('t') == i:
                done_steps.setdefault(info['s'], []).append((step, info))
        path_kind = f'{spec["type"]}:{spec.get("target", "-")}:' \
                    f'{spec.get("fail") or spec.get("finish", "ok")}'
        for j in range(nsubs):
            n = len(done_steps.get(j, []))
            if n != 1:
                v.append((f'c20:{path_kind}:on_done-count={min(n, 2)}',
                          f'transfer {i} subscriber {j}: on_done ran {n}x'))
        comp = R.cb_complete_step.get(i)
        if comp is None:
            v.append((f'c20:{path_kind}:callbacks-never-reported-complete',
                      f'transfer {i}: wait_until_on_done_callbacks_complete '
                      f'would block forever'))
        else:
            for j, lst in done_steps.items():
                for (step, info) in lst:
                    if info['complete_flag'] or step > comp:
                        v.append((f'c20:{path_kind}:reported-complete-before-'
                                  f'on_done',
                                  f'transfer {i}: callbacks were reported '
                                  f'complete (step {comp}) before subscriber '
                                  f'{j} on_done ran (step {step})'))
        # path downloads: rename on success, remove on error
        if spec['type'] == 'download' and spec.get('target') == 'path':
            temps = [p for p in R.fs.listing()
                     if p.startswith(t['path'] + '.')]
            if temps:
                v.append((f'c20:{path_kind}:temp-left',
                          f'transfer {i}: temporary files {temps} remain'))
            cur = R.fs.files.get(t['path'])
            cur = bytes(cur) if cur is not None else None
            okfinish = (t.get('finish') == 'ok' and not spec.get('fail'))
            rename_fault = any(site == 'fs.rename' and info.get('key') ==
                               t['path'] for (_, site, _, info)
                               in R.trace.delivered)
            exp = pattern_bytes(spec.get('size', 0), 7 + i)
            if okfinish and not rename_fault:
                if cur != exp:
                    v.append((f'c20:{path_kind}:not-published',
                              f'transfer {i} succeeded but the destination '
                              f'does not hold the object'))
            else:
                if cur != t.get('previous'):
                    v.append((f'c20:{path_kind}:published-despite-error',
                              f'transfer {i} failed/was cancelled but the '
                              f'destination changed'))
    end = R.end
    if end.get('returned'):
        car = end.get('complete_at_return') or []
        if not all(car):
            v.append(('c20:shutdown-returned-before-callbacks',
                      f'shutdown returned while done callbacks of transfers '
                      f'{[k for k, x in enumerate(car) if not x]} had not '
                      f'completed'))
        ret = end.get('return_step')
        for (step, tid, k, info) in evs:
            if k == 'cb.done' and step > ret:
                v.append(('c20:on_done-after-shutdown',
                          f'on_done of transfer {info["t"]} at step {step} '
                          f'after shutdown returned at {ret}'))
                break
    return v
