"""python -m vt.runner <Cxx> --tier quick|thorough [--replay f]

Shards a check over worker processes, drives Hypothesis with seeds derived
from VERIF_SEED, collects (never stops at) violations, minimises one exemplar
per new signature, writes replay files and the evidence file, handles the
known-findings file.  Exit 0 = held on everything explored; exit 1 + VIOLATION
line = oracle violation; exit 2 = harness error (never reported as violation).
"""
import argparse
import hashlib
import json
import multiprocessing as mp
import os
import sys
import time
import traceback

from . import VERIF


def canon(obj):
    return json.dumps(obj, sort_keys=True, separators=(',', ':'),
                      default=repr)


def fingerprint(obj):
    return hashlib.blake2b(canon(obj).encode(), digest_size=8).hexdigest()


def derive_seed(seed, shard, salt=''):
    h = hashlib.blake2b(f'{seed}/{shard}/{salt}'.encode(),
                        digest_size=8).digest()
    return int.from_bytes(h, 'big') % (2 ** 63)


def class_groups(classes):
    g = {}
    for k, v in classes.items():
        if ':' in k:
            p = k.split(':', 1)[0]
            g[p] = g.get(p, 0) + v
    return dict(sorted(g.items(), key=lambda kv: -kv[1])[:40])


def load_known():
    p = os.path.join(VERIF, 'known_findings.json')
    if not os.path.exists(p):
        return []
    with open(p) as f:
        return json.load(f).get('findings', [])


def known_for(pid):
    """signature prefixes of recorded-but-unrepaired findings for pid."""
    return [k for k in load_known()
            if k.get('property') == pid and k.get('status') == 'known']


def match_known(sig, known):
    for k in known:
        ks = k['signature']
        if sig == ks or sig.startswith(ks + '|') or sig.startswith(ks + ':'):
            return k
    return None


class ShardStats:
    def __init__(self):
        self.evaluations = 0
        self.nontrivial = set()
        self.classes = {}
        self.samples = []
        self.violations = {}     # sig -> (msg, case, count)
        self.inconclusive = 0
        self.errors = []
        self.excluded = 0
        self.extra = {}

    def add(self, case, out, max_samples=3):
        self.evaluations += 1
        fp = out.get('fp') or fingerprint(case)
        if out.get('nontrivial'):
            self.nontrivial.add(fp)
            if len(self.samples) < max_samples:
                self.samples.append(case)
        for c in (out.get('cls') or ['-']):
            self.classes[c] = self.classes.get(c, 0) + 1
        if out.get('inconclusive'):
            self.inconclusive += 1
        for sig, msg in out.get('violations') or []:
            if sig in self.violations:
                m, c, n = self.violations[sig]
                # keep the smaller exemplar
                if len(canon(case)) < len(canon(c)):
                    m, c = msg, case
                self.violations[sig] = (m, c, n + 1)
            else:
                self.violations[sig] = (msg, case, 1)

    def dump(self):
        return {
            'evaluations': self.evaluations,
            'nontrivial': sorted(self.nontrivial),
            'classes': self.classes, 'samples': self.samples,
            'violations': {k: [v[0], v[1], v[2]]
                           for k, v in self.violations.items()},
            'inconclusive': self.inconclusive, 'errors': self.errors,
            'excluded': self.excluded, 'extra': self.extra,
        }


def _shard_entry(args):
    pid, tier, seed, shard, nshards, part = args
    os.environ['PYTHONHASHSEED'] = '0'
    try:
        from .checks import get_check
        chk = get_check(pid)
        chk.scale = float(os.environ.get('VT_SCALE', '1'))
        stats = ShardStats()
        if part == 'hyp':
            _run_hypothesis(chk, tier, seed, shard, nshards, stats)
        elif part == 'fuzz':
            _run_fuzz(chk, tier, seed, shard, nshards, stats)
        else:
            chk.extra_shard(tier, seed, shard, nshards, stats)
        return stats.dump()
    except BaseException:  # noqa
        return {'fatal': traceback.format_exc()}


def _run_hypothesis(chk, tier, seed, shard, nshards, stats):
    import hypothesis
    from hypothesis import given, settings, HealthCheck, Phase
    n = chk.examples(tier)
    per = max(1, n // nshards)
    if per <= 0:
        return
    strat = chk.strategy(tier)
    if strat is None:
        return

    @hypothesis.seed(derive_seed(seed, shard, chk.id))
    @settings(max_examples=per, database=None, deadline=None,
              derandomize=False, phases=[Phase.generate],
              suppress_health_check=list(HealthCheck),
              report_multiple_bugs=False)
    @given(strat)
    def drive(case):
        try:
            out = chk.execute(case)
        except Exception:
            stats.errors.append(traceback.format_exc() + '\nCASE: '
                                + canon(case)[:6000])
            if len(stats.errors) > 3:
                raise
            return
        stats.add(case, out)

    drive()


def _run_fuzz(chk, tier, seed, shard, nshards, stats):
    """Coverage-guided campaign (atheris/libFuzzer over the check's own
    strategy and oracle, vt/fuzz.py) in a child process; every case it
    reports is re-executed here, uninstrumented, and kept only if the same
    signature shows again."""
    import shutil
    import subprocess
    import tempfile
    runs = chk.fuzz_budget(tier)[1]
    try:
        import atheris  # noqa
    except Exception:
        stats.extra['fuzz'] = {'skipped': 'atheris not importable'}
        return
    d = tempfile.mkdtemp(prefix='vt-fuzz-')
    out = os.path.join(d, 'stats.json')
    try:
        cmd = [sys.executable, '-m', 'vt.fuzz', chk.id, tier, str(runs),
               str(derive_seed(seed, shard, chk.id + 'fuzz')), out]
        r = subprocess.run(cmd, cwd=VERIF, capture_output=True, text=True,
                           env=dict(os.environ, PYTHONHASHSEED='0'))
        if not os.path.exists(out):
            raise RuntimeError('fuzz child produced no statistics:\n'
                               + r.stderr[-2000:])
        with open(out) as f:
            d2 = json.load(f)
        cov = None
        for line in r.stderr.splitlines():
            if ' cov: ' in line:
                try:
                    cov = int(line.split(' cov: ')[1].split()[0])
                except ValueError:
                    pass
        stats.evaluations += d2['evaluations']
        stats.nontrivial.update(d2['nontrivial'])
        for k, v in d2['classes'].items():
            stats.classes[k] = stats.classes.get(k, 0) + v
        stats.inconclusive += d2['inconclusive']
        stats.errors += d2['errors']
        unrepro = 0
        for sig, (msg, case, n) in d2['violations'].items():
            try:
                again = chk.execute(case)
            except Exception:
                again = {}
            if any(s2 == sig for s2, _ in again.get('violations') or []):
                stats.violations[sig] = (msg, case, n)
            else:
                unrepro += 1
        stats.extra[f'fuzz{shard}'] = {
            'executions': d2['extra'].get('fuzz_execs', 0),
            'valid_cases': d2['evaluations'], 'edges_covered': cov,
            'requested': runs, 'unreproduced': unrepro}
    finally:
        shutil.rmtree(d, ignore_errors=True)


def minimise(chk, case, sig, budget=250):
    """Greedy structural minimiser: keep a candidate when the same signature
    is still reported."""
    def fails(c):
        try:
            out = chk.execute(c)
        except Exception:
            return False
        return any(s == sig for s, _ in out.get('violations') or [])

    cur = case
    spent = 0
    improved = True
    while improved and spent < budget:
        improved = False
        for cand in chk.shrink_candidates(cur):
            if spent >= budget:
                break
            spent += 1
            if canon(cand) != canon(cur) and fails(cand):
                cur = cand
                improved = True
                break
    return cur


def out_dir():
    return os.environ.get('VT_OUT') or VERIF


def write_replay(pid, sig, msg, case):
    d = os.path.join(out_dir(), 'replays')
    os.makedirs(d, exist_ok=True)
    h = fingerprint([sig, case])
    p = os.path.join(d, f'{pid}-{h}.json')
    with open(p, 'w') as f:
        json.dump({'property': pid, 'signature': sig, 'message': msg,
                   'case': case}, f, indent=1, sort_keys=True, default=repr)
    return p


def run_replay(pid, path):
    from .checks import get_check
    chk = get_check(pid)
    with open(path) as f:
        doc = json.load(f)
    out = chk.execute(doc['case'])
    vio = out.get('violations') or []
    known = known_for(pid)
    bad = 0
    for sig, msg in vio:
        k = match_known(sig, known)
        if k:
            print(f'KNOWN-FINDING: property={pid} {sig}: {msg}')
        else:
            print(f'VIOLATION property={pid} replay={path}')
            print(f'  signature: {sig}\n  {msg}')
            bad += 1
    if not vio:
        print(f'replay {path}: no violation')
    return 1 if bad else 0


def corpus_cases(pid):
    d = os.path.join(VERIF, 'replays', 'corpus', pid)
    if not os.path.isdir(d):
        return []
    out = []
    for fn in sorted(os.listdir(d)):
        if fn.endswith('.json'):
            with open(os.path.join(d, fn)) as f:
                out.append((fn, json.load(f)))
    return out


def main(argv=None):
    ap = argparse.ArgumentParser()
    ap.add_argument('pid')
    ap.add_argument('--tier', default=os.environ.get('VERIF_TIER', 'quick'))
    ap.add_argument('--replay')
    ap.add_argument('--shards', type=int, default=None)
    ap.add_argument('--scale', type=float, default=1.0,
                    help='scale the case counts (development only)')
    args = ap.parse_args(argv)
    pid = args.pid
    os.environ['PYTHONHASHSEED'] = '0'
    if args.replay:
        try:
            return run_replay(pid, args.replay)
        except Exception:
            traceback.print_exc()
            return 2
    tier = args.tier if args.tier in ('quick', 'thorough') else 'quick'
    try:
        seed = int(os.environ.get('VERIF_SEED', '1'))
    except ValueError:
        seed = 1
    t0 = time.time()
    from .checks import get_check
    try:
        chk = get_check(pid)
    except KeyError:
        print(f'unknown check {pid}', file=sys.stderr)
        return 2
    chk.scale = args.scale
    os.environ['VT_SCALE'] = str(args.scale)
    nshards = args.shards or min(16, os.cpu_count() or 1)
    jobs = []
    if chk.examples(tier) > 0 and chk.strategy(tier) is not None:
        jobs += [(pid, tier, seed, i, nshards, 'hyp') for i in range(nshards)]
    nx = chk.extra_shards(tier)
    jobs += [(pid, tier, seed, i, nx, 'extra') for i in range(nx)]
    nf = chk.fuzz_budget(tier)[0] if chk.strategy(tier) is not None else 0
    if os.environ.get('VT_NO_FUZZ'):
        nf = 0
    jobs += [(pid, tier, seed, i, nf, 'fuzz') for i in range(nf)]
    ctx = mp.get_context('fork')
    limit = float(os.environ.get(
        'VT_WATCHDOG_S', '2400' if tier == 'quick' else '14400'))
    with ctx.Pool(min(len(jobs), nshards) or 1) as pool:
        try:
            results = pool.map_async(_shard_entry, jobs,
                                     chunksize=1).get(timeout=limit)
        except mp.TimeoutError:
            pool.terminate()
            print(f'HARNESS ERROR: shards did not finish within {limit}s '
                  f'(inconclusive, not a violation)', file=sys.stderr)
            return 2
    fatal = [r['fatal'] for r in results if 'fatal' in r]
    if fatal:
        print('HARNESS ERROR in shard:\n' + fatal[0], file=sys.stderr)
        return 2
    # corpus replay (committed regression cases) in-process
    merged = ShardStats()
    corpus_n = 0
    for fn, doc in corpus_cases(pid):
        try:
            out = chk.execute(doc['case'])
        except Exception:
            print('HARNESS ERROR replaying corpus ' + fn, file=sys.stderr)
            traceback.print_exc()
            return 2
        corpus_n += 1
        merged.add(doc['case'], out, max_samples=0)
    evaluations = merged.evaluations
    nontrivial = set(merged.nontrivial)
    classes = dict(merged.classes)
    samples = []
    violations = dict(merged.violations)
    inconclusive = 0
    errors = []
    extra_cov = {}
    for r in results:
        evaluations += r['evaluations']
        nontrivial.update(r['nontrivial'])
        for k, v in r['classes'].items():
            classes[k] = classes.get(k, 0) + v
        if len(samples) < 4 and r['samples']:
            samples.append(r['samples'][0])
        for sig, (msg, case, n) in r['violations'].items():
            if sig in violations:
                m, c, k = violations[sig]
                if len(canon(case)) < len(canon(c)):
                    m, c = msg, case
                violations[sig] = (m, c, k + n)
            else:
                violations[sig] = (msg, case, n)
        inconclusive += r['inconclusive']
        errors += r['errors']
        for k, v in (r.get('extra') or {}).items():
            extra_cov[k] = v
    if errors:
        print('HARNESS ERROR while executing a case:\n' + errors[0],
              file=sys.stderr)
        return 2
    known = known_for(pid)
    new = {}
    seen_known = {}
    for sig, (msg, case, n) in violations.items():
        k = match_known(sig, known)
        if k:
            seen_known.setdefault(k['signature'], (k, msg, n))
        else:
            new[sig] = (msg, case, n)
    for ks, (k, msg, n) in sorted(seen_known.items()):
        print(f'KNOWN-FINDING: property={pid} {ks} '
              f'({k.get("what", "")}; {n} cases this run)')
    replay_paths = []
    for k, (sig, (msg, case, n)) in enumerate(sorted(new.items())):
        small = case
        try:
            # minimise the first few signatures only (one root cause often
            # shows under many signatures; the rest are saved as found)
            if k < 6:
                small = minimise(chk, case, sig,
                                 budget=150 if tier == 'quick' else 600)
        except Exception:
            traceback.print_exc()
        p = write_replay(pid, sig, msg, small)
        replay_paths.append(p)
        print(f'VIOLATION property={pid} replay={p}')
        print(f'  signature: {sig} ({n} cases)\n  {msg}')
    wall = time.time() - t0
    cov = {
        'evaluations': evaluations,
        'distinct_nontrivial': len(nontrivial),
        'rule': chk.rule,
        'samples': samples or [c for _, c in
                               [(0, d['case']) for _, d in
                                corpus_cases(pid)][:2]],
        'classes': dict(sorted(classes.items(), key=lambda kv: -kv[1])[:60]),
        # totals per class family (text before the first ':'), so that the
        # many small systematic classes that fall off the top-60 list above
        # are still counted (e.g. 'serial-interrupt', 'systematic')
        'class_groups': class_groups(classes),
        'inconclusive_budget_hits': inconclusive,
        'corpus_replayed': corpus_n,
        'shards': nshards,
        'known_findings_seen': sorted(seen_known),
    }
    cov.update(chk.coverage_extra(tier, results))
    fz = [v for k, v in extra_cov.items() if k.startswith('fuzz')]
    if fz:
        if any('skipped' in v for v in fz):
            cov['coverage_guided'] = fz[0]
        else:
            cov['coverage_guided'] = {
                'engine': 'atheris/libFuzzer over Hypothesis fuzz_one_input '
                          '(same strategy, same oracle; bytecode coverage of '
                          's3transfer only)',
                'campaigns': len(fz),
                'executions': sum(v['executions'] for v in fz),
                'executions_requested': sum(v['requested'] for v in fz),
                'valid_cases': sum(v['valid_cases'] for v in fz),
                'edges_covered_max': max((v['edges_covered'] or 0)
                                         for v in fz),
                'reported_but_not_reproduced_uninstrumented':
                    sum(v['unreproduced'] for v in fz)}
    ev = {
        'property_id': pid, 'tier': tier, 'seed': seed,
        'level': chk.level, 'coverage': cov,
        'assumptions': chk.assumptions, 'wall_s': round(wall, 2),
        'violations': len(new),
    }
    os.makedirs(os.path.join(out_dir(), 'evidence'), exist_ok=True)
    with open(os.path.join(out_dir(), 'evidence', f'{pid}.json'), 'w') as f:
        json.dump(ev, f, indent=1, sort_keys=True, default=repr)
    print(f'{pid} {tier}: evaluations={evaluations} '
          f'distinct_nontrivial={len(nontrivial)} violations={len(new)} '
          f'known={len(seen_known)} inconclusive={inconclusive} '
          f'wall={wall:.1f}s')
    return 1 if new else 0


if __name__ == '__main__':
    sys.exit(main())
