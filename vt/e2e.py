"""Executes one end-to-end Case on the real TransferManager under the
deterministic scheduler with the fake S3 service and in-memory file system,
and returns a Result (trace + observations) for the oracles.

A Case is a plain JSON document (see vt/gen.py for the strategies):

  cfg        TransferConfig keyword arguments
  adj        [min,max,max_parts] for the scaled ChunksizeAdjuster, or null
  exec       'thr' (DetExecutor) | 'serial' (NonThreadedExecutor)
  rcc        client request_checksum_calculation
  transfers  list of transfer specs (upload/download/copy/delete)
  scripts    {'body': [...], 'stream': [...]}  request/stream scripts
  faults     fault plan
  cancels    [{'t': idx, 'at': step}]  future.cancel() by a second thread
  end        how the user program ends (shutdown / with-block / ...)
  kbi        {'at': step}  Ctrl-C delivered to the user thread
  fresh      submit one more transfer after the others are done (C18)
  sched      schedule spec for detsched.make_policy
"""
import contextlib
import io

from . import detsched
from .detsched import Scheduler, SchedAbort, make_policy, HarnessError
from .fakes3 import FakeS3, Trace, FaultPlan, pattern_bytes, InjectedFault
from . import fakefs

BUCKET = 'bkt'
SRC_BUCKET = 'srcbkt'
DIR = '/d'

_MODS = None


def mods():
    global _MODS
    if _MODS is None:
        import s3transfer
        import s3transfer.futures
        import s3transfer.utils
        import s3transfer.download
        import s3transfer.upload
        import s3transfer.copies
        import s3transfer.manager
        import s3transfer.bandwidth
        import s3transfer.tasks
        import s3transfer.subscribers
        import s3transfer.exceptions
        import threading
        import time
        _MODS = {
            'thr': [s3transfer.futures, s3transfer.utils,
                    s3transfer.download, s3transfer.manager,
                    s3transfer.bandwidth],
            'time': [s3transfer.bandwidth],
            'adj': [s3transfer.upload, s3transfer.copies],
            'real_threading': threading, 'real_time': time,
            'ChunksizeAdjuster': s3transfer.utils.ChunksizeAdjuster,
            'upload': s3transfer.upload,
        }
    return _MODS


@contextlib.contextmanager
def patched(sched, adj=None, agg_threshold=None, bw_threshold=None):
    """Rebind the names through which s3transfer reaches threading / time /
    ChunksizeAdjuster (no source change; see DESIGN 2.1, 2.5)."""
    m = mods()
    shim = detsched.ThreadingShim(sched)
    tshim = detsched.TimeShim(sched)
    saved = []
    try:
        for mod in m['thr']:
            saved.append((mod, 'threading', mod.threading))
            mod.threading = shim
        for mod in m['time']:
            saved.append((mod, 'time', mod.time))
            mod.time = tshim
        if adj is not None:
            real = m['ChunksizeAdjuster']
            lo, hi, mp = adj

            def factory(*a, **kw):
                if a or kw:
                    return real(*a, **kw)
                return real(max_size=hi, min_size=lo, max_parts=mp)
            for mod in m['adj']:
                saved.append((mod, 'ChunksizeAdjuster', mod.ChunksizeAdjuster))
                mod.ChunksizeAdjuster = factory
        if bw_threshold is not None:
            import s3transfer.bandwidth as bwm
            import s3transfer.manager as mgrm
            realbls = bwm.BandwidthLimitedStream
            realbucket = mgrm.LeakyBucket
            sched.bw_moved = 0
            sched.bw_consumed = 0

            class ScaledBLS(realbls):
                # same class, scaled default threshold; counts the bytes
                # that pass while limiting is enabled
                def __init__(self, fileobj, leaky_bucket,
                             transfer_coordinator, time_utils=None,
                             bytes_threshold=bw_threshold):
                    super().__init__(fileobj, leaky_bucket,
                                     transfer_coordinator, time_utils,
                                     bytes_threshold)

                def read(self, amount):
                    data = super().read(amount)
                    if self._bandwidth_limiting_enabled:
                        sched.bw_moved += len(data)
                    return data

            class CountingBucket(realbucket):
                def consume(self, amt, request_token):
                    r = super().consume(amt, request_token)
                    sched.bw_consumed += amt
                    return r
            saved.append((bwm, 'BandwidthLimitedStream', realbls))
            bwm.BandwidthLimitedStream = ScaledBLS
            saved.append((mgrm, 'LeakyBucket', realbucket))
            mgrm.LeakyBucket = CountingBucket
        # TransferCoordinatorController keeps the coordinators in a set, whose
        # iteration order follows object addresses: make it a function of
        # the case instead (any order is possible in reality)
        import s3transfer.futures as futm
        TC = futm.TransferCoordinator
        salt = getattr(sched, 'hash_salt', 0)

        def det_hash(self):
            tid = self.transfer_id
            if isinstance(tid, int):
                return (tid * 7 + salt * 3) % 11 + (tid << 8)
            return object.__hash__(self)
        saved.append((TC, '__hash__', TC.__hash__))
        TC.__hash__ = det_hash
        if agg_threshold is not None:
            up = m['upload']
            realagg = up.AggregatedProgressCallback

            class ScaledAgg(realagg):
                def __init__(self, callbacks, threshold=agg_threshold):
                    super().__init__(callbacks, threshold)
            saved.append((up, 'AggregatedProgressCallback', realagg))
            up.AggregatedProgressCallback = ScaledAgg
        yield shim
    finally:
        for mod, name, val in reversed(saved):
            setattr(mod, name, val)


class Result:
    pass


def _key(i):
    return f'k{i}'


def _srckey(i):
    return f's{i}'


def _path(i, longname=False):
    if longname:
        # a base name of exactly 255 characters (the file-name limit the
        # temp-name rule is written around)
        return f'{DIR}/' + f'{i:05d}' + 'L' * 250
    return f'{DIR}/f{i}'


def make_subscriber_cls():
    from s3transfer.subscribers import BaseSubscriber

    class Sub(BaseSubscriber):
        def __init__(self, R, tidx, sidx, spec, size=None):
            self.R = R
            self.tidx = tidx
            self.sidx = sidx
            self.spec = spec or {}
            self.size = size
            self.nprog = 0
            self.log = []

        def _reenter(self, which, future):
            sched = self.R.sched
            for op in (self.spec.get('reenter') or {}).get(which, []):
                self.R.trace.ev('cb.reenter', t=self.tidx, op=op)
                try:
                    if op == 'done':
                        future.done()
                    elif op == 'meta':
                        future.meta.size
                        future.meta.call_args
                        future.meta.user_context
                    elif op == 'cancel':
                        future.cancel()
                    elif op == 'result' and which == 'done':
                        try:
                            future.result()
                        except SchedAbort:
                            raise
                        except BaseException:
                            pass
                    elif op == 'set_exception':
                        if which == 'done':
                            future.set_exception(self.R.reenter_exc)
                        else:
                            try:
                                future.set_exception(self.R.reenter_exc)
                            except SchedAbort:
                                raise
                            except Exception:
                                pass
                except SchedAbort:
                    raise
                finally:
                    pass

        def _mask(self):
            # Ctrl-C is only delivered while the user program itself is
            # parked in result()/shutdown(), not inside these callbacks
            cur = self.R.sched.cur
            k, cur.kbi_at = cur.kbi_at, None
            return cur, k

        def on_queued(self, future, **kwargs):
            cur, k = self._mask()
            try:
                self._on_queued(future, **kwargs)
            finally:
                cur.kbi_at = k

        def on_progress(self, future, bytes_transferred, **kwargs):
            cur, k = self._mask()
            try:
                self._on_progress(future, bytes_transferred, **kwargs)
            finally:
                cur.kbi_at = k

        def on_done(self, future, **kwargs):
            cur, k = self._mask()
            try:
                self._on_done(future, **kwargs)
            finally:
                cur.kbi_at = k

        def _on_queued(self, future, **kwargs):
            R = self.R
            R.sched.point(None, 'cb.on_queued')
            R.trace.ev('cb.queued', t=self.tidx, s=self.sidx)
            if self.spec.get('size') and self.size is not None:
                future.meta.provide_transfer_size(self.size)
            exc = R.faults.visit('cb.on_queued', self.tidx)
            if exc is not None:
                raise exc
            self._reenter('queued', future)

        def _on_progress(self, future, bytes_transferred, **kwargs):
            R = self.R
            R.sched.point(None, 'cb.on_progress')
            R.trace.ev('cb.progress', t=self.tidx, s=self.sidx,
                       n=bytes_transferred)
            exc = R.faults.visit('cb.on_progress', self.tidx)
            if exc is not None:
                raise exc
            self._reenter('progress', future)

        def _on_done(self, future, **kwargs):
            R = self.R
            s = R.sched
            s.point(None, 'cb.on_done')
            isdone = future.done()
            # does result() still block?
            s.cur.last_wait_blocked = None
            outcome = None
            R.in_on_done_result = self.tidx
            try:
                future.result()
                outcome = ('ok', None)
            except SchedAbort:
                raise
            except BaseException as e:  # noqa
                outcome = ('exc', e)
            R.in_on_done_result = None
            blocked = s.cur.last_wait_blocked
            R.trace.ev('cb.done', t=self.tidx, s=self.sidx, done=isdone,
                       blocked=blocked, outcome=outcome)
            self._reenter('done', future)
            if self.spec.get('raise_done'):
                raise RuntimeError('subscriber on_done raises')
    return Sub


def run_case(case, repo_checks=True):
    from s3transfer.manager import TransferManager, TransferConfig
    from s3transfer.futures import NonThreadedExecutor
    from s3transfer.utils import OSUtils

    sched = Scheduler(make_policy(case.get('sched')),
                      max_steps=case.get('max_steps', 60000))
    sched.hash_salt = case.get('hash_salt', 0)
    trace = Trace(sched)
    faults = FaultPlan(case.get('faults'), trace)
    fs = fakefs.MemFS(sched, trace, faults)
    fs.wbuf = case.get('fs_buffer') or 0
    svc = FakeS3(sched, trace, faults, case.get('scripts'),
                 strict_params=case.get('strict', True))
    R = Result()
    R.case = case
    R.sched = sched
    R.trace = trace
    R.faults = faults
    R.fs = fs
    R.svc = svc
    R.executors = []
    R.transfers = []
    R.api = []            # user-thread API events
    R.end = {}
    R.harness_error = None
    R.in_on_done_result = None
    R.sem_state = None
    R.reenter_exc = InjectedFault('reenter.set_exception')
    R.fs_watch_violations = []
    from .oracles import install_c06_watch
    install_c06_watch(R)
    Sub = make_subscriber_cls()
    cfgkw = dict(case['cfg'])
    serial = case.get('exec') == 'serial'

    def api(kind, **info):
        R.api.append((sched.step, kind, info))
        trace.ev('api.' + kind, **info)

    def prepare(i, t):
        """Create sources/destinations and the per-transfer record."""
        rec = {'i': i, 'spec': t, 'type': t['type'], 'key': _key(i),
               'future': None, 'submitted_step': None, 'outcome': None,
               'submit_exc': None}
        size = t.get('size', 0)
        salt = 13 * i + 1
        subs = []
        if t['type'] == 'upload':
            start = t.get('start', 0)
            data = pattern_bytes(start + size, salt)
            rec['expect'] = data[start:]
            if t['src'] == 'path':
                fs.files[_path(i)] = bytearray(data[start:])
                rec['fileobj'] = _path(i)
            elif t['src'] == 'seek':
                cls = (fakefs.PlainSeekableSource if t.get('plain')
                       else fakefs.SeekableSource)
                rec['fileobj'] = cls(sched, trace, faults, data, start, i)
            else:
                rec['fileobj'] = fakefs.NonSeekableSource(
                    sched, trace, faults, data, start, i)
            rec['sizehint'] = size
        elif t['type'] == 'download':
            data = pattern_bytes(size, salt)
            rec['expect'] = data
            svc.objects[(BUCKET, _key(i))] = data
            dst = t['dst']
            pre = t.get('preexist')
            if dst in ('path', 'special'):
                pth = _path(i, bool(t.get('longname')) and dst == 'path')
                rec['fileobj'] = pth
                if dst == 'special':
                    fs.special.add(pth)
                    fs.files[pth] = bytearray()
                elif pre is not None:
                    fs.files[pth] = bytearray(
                        pattern_bytes(pre, salt + 100))
                rec['previous'] = (bytes(fs.files[pth])
                                   if pth in fs.files else None)
            elif dst == 'seek':
                rec['fileobj'] = fakefs.SeekableSink(sched, trace, faults, i)
            elif t.get('seek_attr'):
                rec['fileobj'] = fakefs.PipeLikeSink(sched, trace, faults, i)
            else:
                rec['fileobj'] = fakefs.NonSeekableSink(
                    sched, trace, faults, i)
            rec['sizehint'] = size
        elif t['type'] == 'copy':
            if t.get('virtual'):
                from .fakes3 import SizedBlob
                data = SizedBlob(size)
            else:
                data = pattern_bytes(size, salt)
            rec['expect'] = data
            svc.objects[(SRC_BUCKET, _srckey(i))] = data
            cs = {'Bucket': SRC_BUCKET, 'Key': _srckey(i)}
            if t.get('version'):
                # the copy names an OLDER version; the latest one differs in
                # content and length
                cs['VersionId'] = 'v1'
                svc.versions[(SRC_BUCKET, _srckey(i))] = {'v1': data}
                if not t.get('virtual'):
                    svc.objects[(SRC_BUCKET, _srckey(i))] = pattern_bytes(
                        size + 1, salt + 29)
            rec['copy_source'] = cs
            rec['sizehint'] = size
        elif t['type'] == 'delete':
            svc.objects[(BUCKET, _key(i))] = pattern_bytes(size, salt)
            rec['sizehint'] = None
        for j, sp in enumerate(t.get('subs') or []):
            subs.append(Sub(R, i, j, sp, rec['sizehint']))
        rec['subs'] = subs
        return rec

    shared_extra = {}

    def submit(mgr, rec, src_client):
        t = rec['spec']
        extra = dict(t.get('extra') or {})
        if case.get('shared_extra'):
            # the caller passes one and the same dictionary to every call
            extra = shared_extra
        api('submit.begin', t=rec['i'])
        try:
            if t['type'] == 'upload':
                f = mgr.upload(rec['fileobj'], BUCKET, rec['key'],
                               extra_args=extra, subscribers=rec['subs'])
            elif t['type'] == 'download':
                f = mgr.download(BUCKET, rec['key'], rec['fileobj'],
                                 extra_args=extra, subscribers=rec['subs'])
            elif t['type'] == 'copy':
                f = mgr.copy(rec['copy_source'], BUCKET, rec['key'],
                             extra_args=extra, subscribers=rec['subs'],
                             source_client=(src_client if t.get('src_client')
                                            else None))
            else:
                f = mgr.delete(BUCKET, rec['key'], extra_args=extra,
                               subscribers=rec['subs'])
            rec['future'] = f
            rec['submitted_step'] = sched.step
        except SchedAbort:
            raise
        except KeyboardInterrupt:
            raise
        except Exception as e:
            rec['submit_exc'] = e
        api('submit.end', t=rec['i'])

    def collect(rec):
        f = rec['future']
        if f is None:
            return
        out = {'done_at_collect': f.done()}
        try:
            out['result'] = f.result()
            out['ok'] = True
        except SchedAbort:
            raise
        except BaseException as e:  # noqa
            out['ok'] = False
            out['exc'] = e
        out['status'] = f._coordinator.status
        rec['outcome'] = out

    def all_done():
        return all(r['future'] is None or r['future'].done()
                   for r in R.transfers) and len(R.transfers) == ntrans

    ntrans = len(case['transfers'])
    R.first_done = {}

    def task_start_step(i):
        """Step at which the executor began running transfer i's submission
        task (the i-th item of the submission executor), or None."""
        if serial:
            return R.transfers[i]['submitted_step'] if i < len(
                R.transfers) else None
        if len(R.executors) < 2:
            return None
        items = R.executors[1].items
        if i < len(items):
            return items[i]['start']
        return None
    R.task_start_step = task_start_step

    def task_started(i):
        return task_start_step(i) is not None

    R.announced = {}
    R.listing_at_announce = {}

    def all_recs():
        fr = getattr(R, 'fresh', None)
        return R.transfers + ([fr] if fr is not None else [])
    R.all_recs = all_recs

    def poll_done(s):
        for r in all_recs():
            f = r['future']
            if f is None:
                continue
            i = r['i']
            if i not in R.first_done and f.done():
                R.first_done[i] = s.step
            if i not in R.announced:
                ev = getattr(f._coordinator, '_done_event', None)
                if ev is not None and ev.is_set():
                    # result() no longer blocks from this step on
                    R.announced[i] = s.step
                    R.listing_at_announce[i] = fs.listing()
    sched.step_hooks.append(poll_done)

    R.cancel_log = []
    R.rejects = []

    def canceller(c0):
        c = dict(c0)
        R.cancel_log.append(c)

        def run():
            ti = c['t']
            def due():
                if 'calls' in c:
                    r = R.transfers[ti]
                    n = svc.key_events.get(r['key'], 0)
                    if r['type'] == 'copy':
                        n += svc.key_events.get(r['copy_source']['Key'], 0)
                    return n >= c['calls']
                if 'point' in c:
                    # right before the effect of the nth scheduling point of
                    # that kind (the k-th file write, rename, body read, ...)
                    return sched.label_counts.get(c['point'], 0) > c['nth']
                return sched.step >= c['at']
            sched.point(lambda: (len(R.transfers) > ti
                                 and R.transfers[ti]['future'] is not None
                                 and (due() or all_done()))
                        or R.end.get('submitted_all_failed'),
                        'canceller.wait', urgent=True)
            if len(R.transfers) <= ti or R.transfers[ti]['future'] is None:
                return
            f = R.transfers[ti]['future']
            c['done_before'] = f.done()
            c['status_before'] = f._coordinator.status
            c['task_started'] = task_started(ti)
            c['before'] = None
            ev = getattr(f._coordinator, '_done_event', None)
            if c['done_before'] and ev is not None and ev.is_set():
                try:
                    f.result()
                    c['before'] = ('ok', None)
                except SchedAbort:
                    raise
                except BaseException as e:  # noqa
                    c['before'] = ('exc', e)
            c['step'] = sched.step
            api('cancel.begin', t=ti, done=c['done_before'],
                status=c['status_before'])
            f.cancel()
            api('cancel.end', t=ti)
            c['end_step'] = sched.step
        return run

    def main():
        client = svc.client('c', case.get('rcc', 'when_required'))
        src_client = svc.client('src', case.get('rcc', 'when_required'))
        R.client = client
        osutil = fakefs.make_osutils(fs, OSUtils)
        config = TransferConfig(**cfgkw)
        ecls = (NonThreadedExecutor if serial
                else detsched.make_executor_cls(sched, R.executors))
        mgr = TransferManager(client, config, osutil, ecls)
        R.mgr = mgr
        end = dict(case.get('end') or {'how': 'shutdown'})
        R.end = end
        how = end.get('how', 'shutdown')
        for i, t in enumerate(case['transfers']):
            R.transfers.append(prepare(i, t))
        R.transfers_prepared = True
        waiting_cancellers = []
        for c in (case.get('cancels') or []):
            if c['t'] < ntrans:
                th = sched.spawn(canceller(c), f'canceller{c["t"]}',
                                 role='canceller')
                if 'calls' in c:
                    waiting_cancellers.append(th)

        def on_s3_event(key):
            # an event-based canceller whose trigger just became due runs
            # next (otherwise the default policy would keep the current
            # thread and the cancel would land after the transfer).  The
            # predicates call into the library (future.done()): line-level
            # scheduling points are suppressed while they run, this hook is
            # harness code and must not be interleaved with itself
            due = None
            prev = sched.busy
            sched.busy = True
            try:
                for th in waiting_cancellers:
                    if th.alive and th.pred is not None and th.pred():
                        waiting_cancellers.remove(th)
                        due = th
                        break
            finally:
                sched.busy = prev
            if due is not None:
                sched.point(None, 'cancel.due', prefer=due)
        svc.event_hook = on_s3_event
        kbi = case.get('kbi')
        if kbi:
            sched.cur.kbi_at = kbi['at']

        class UserExc(Exception):
            pass

        def rejected_call(spec):
            # a call the manager must reject at submit time (documented
            # ValueError); the caller catches it and carries on
            arn = ('arn:aws:s3-object-lambda:us-west-2:123456789012:'
                   'accesspoint/my-ap')
            bucket = arn if spec['how'] == 'arn' else BUCKET
            extra = {'NoSuchArgument': 'x'} if spec['how'] == 'badarg' else {}
            api('reject.begin', op=spec['type'], how=spec['how'])
            out = {'spec': spec, 'exc': None, 'future': None}
            try:
                if spec['type'] == 'upload':
                    out['future'] = mgr.upload(io.BytesIO(b'x'), bucket, 'rk',
                                               extra_args=extra)
                elif spec['type'] == 'download':
                    out['future'] = mgr.download(bucket, 'rk', io.BytesIO(),
                                                 extra_args=extra)
                elif spec['type'] == 'copy':
                    out['future'] = mgr.copy(
                        {'Bucket': BUCKET, 'Key': 'rk'}, bucket, 'rk2',
                        extra_args=extra)
                else:
                    out['future'] = mgr.delete(bucket, 'rk', extra_args=extra)
            except SchedAbort:
                raise
            except KeyboardInterrupt:
                raise
            except Exception as e:
                out['exc'] = e
            R.rejects.append(out)
            api('reject.end', op=spec['type'])

        def body():
            for rec in R.transfers:
                submit(mgr, rec, src_client)
            for spec in case.get('rejects') or []:
                rejected_call(spec)
            if end.get('wait_results'):
                for rec in R.transfers:
                    if rec['future'] is not None:
                        api('result.begin', t=rec['i'])
                        try:
                            rec['future'].result()
                        except SchedAbort:
                            raise
                        except KeyboardInterrupt:
                            api('result.kbi', t=rec['i'])
                            raise
                        except Exception:
                            pass
                        api('result.end', t=rec['i'])
            if case.get('fresh'):
                sched.point(all_done, 'user.wait_all_done')
                frec = prepare(ntrans, case['fresh'])
                R.fresh = frec
                submit(mgr, frec, src_client)
            at = end.get('at')
            if at is not None:
                sched.point(lambda: sched.step >= at or all_done(),
                            'user.wait_step', urgent=True)

        try:
            if how in ('with', 'with_exc', 'with_kbi'):
                try:
                    with mgr:
                        body()
                        R.end['cancel_step'] = sched.step
                        R.end['done_at_cancel'] = [
                            (r['future'].done() if r['future'] else None)
                            for r in R.transfers]
                        R.end['started_at_cancel'] = [
                            task_started(r['i']) for r in R.transfers]
                        api('exit.begin', how=how)
                        if how == 'with_exc':
                            raise UserExc(end.get('msg', ''))
                        if how == 'with_kbi':
                            raise KeyboardInterrupt()
                except UserExc:
                    R.end['raised'] = 'UserExc'
                except KeyboardInterrupt as e:
                    R.end['raised'] = 'KeyboardInterrupt'
                api('exit.end', how=how)
            else:
                try:
                    body()
                except KeyboardInterrupt:
                    R.end['body_kbi'] = sched.step
                    api('body.kbi')
                R.end['cancel_step'] = sched.step
                R.end['done_at_cancel'] = [
                    (r['future'].done() if r['future'] else None)
                    for r in R.transfers]
                R.end['started_at_cancel'] = [
                    task_started(r['i']) for r in R.transfers]
                api('shutdown.begin', how=how)
                try:
                    if how == 'shutdown_cancel':
                        if 'msg' in end:
                            mgr.shutdown(cancel=True, cancel_msg=end['msg'])
                        else:
                            mgr.shutdown(cancel=True)
                    else:
                        mgr.shutdown()
                    R.end['returned'] = True
                except KeyboardInterrupt:
                    R.end['raised'] = 'KeyboardInterrupt'
                except SchedAbort:
                    raise
                except Exception as e:
                    R.end['raised'] = e
                api('shutdown.end', how=how)
            R.end['return_step'] = sched.step
            R.end['done_at_return'] = [
                (r['future'].done() if r['future'] else None)
                for r in R.transfers]
            sched.cur.kbi_at = None
            for rec in R.transfers:
                collect(rec)
            if getattr(R, 'fresh', None):
                collect(R.fresh)
        finally:
            sched.cur.kbi_at = None
            if not sched.aborting:
                # never leave executor threads behind; record if we had to
                left = [e for e in R.executors if not e._shutdown]
                R.end['executors_left_running'] = len(left)
                for e in left:
                    e.shutdown(wait=True)
                R.end['final_step'] = sched.step
                if all(r['future'] is None or r['outcome'] is not None
                       for r in all_recs()):
                    from .oracles import semaphore_state
                    R.sem_state = semaphore_state(R)

    R.bw_sleeps = sched.sleep_log
    lp = detsched.LinePreempter(sched, case.get('lines') or [],
                                count=bool(case.get('count_lines')),
                                dense=bool(case.get('dense')))
    with patched(sched, case.get('adj'), case.get('agg'),
                 case.get('bw_threshold')):
        with lp:
            try:
                sched.run(main)
            except HarnessError as e:
                R.harness_error = e
    R.nlines = lp.n
    R.ndense = lp.ndense
    for name, e in sched.errors:
        if not isinstance(e, (SchedAbort,)):
            R.harness_error = R.harness_error or HarnessError(
                f'uncaught {type(e).__name__} in thread {name}: {e!r}')
            R.uncaught = (name, e)
    return R
