"""Systematic (exhaustive, bounded) exploration over a fixed scenario matrix:
every single fault site (and, in the thorough tier, every pair), and every
single preemption point (thorough: pairs for the smallest scenarios)."""
import copy

BASE_CFG = dict(multipart_threshold=6, multipart_chunksize=3, io_chunksize=2,
                max_request_concurrency=2, max_submission_concurrency=1,
                max_request_queue_size=2, max_submission_queue_size=2,
                max_io_queue_size=2, num_download_attempts=2,
                max_in_memory_upload_chunks=1,
                max_in_memory_download_chunks=1)
ONES = dict(BASE_CFG, max_request_concurrency=1, max_request_queue_size=1,
            max_submission_queue_size=1, max_io_queue_size=1)
SCHEDS = [{'mode': 'walk', 'choices': []},
          {'mode': 'pct', 'prios': [3, 9, 1, 7, 5], 'changes': [4, 19]},
          {'mode': 'pct', 'prios': [8, 2, 6, 1, 9, 4], 'changes': [11]}]


def scenario_matrix(kinds=None):
    """-> list of (name, case) without faults / cancels."""
    out = []

    def mk(name, transfers, cfg=BASE_CFG, subs=True):
        ts = []
        for t in transfers:
            t = dict(t)
            if subs:
                t['subs'] = [{'size': False, 'raise_done': False,
                              'reenter': {}}]
            ts.append(t)
        out.append((name, {
            'cfg': dict(cfg), 'adj': [3, 12, 10], 'exec': 'thr',
            'rcc': 'when_required', 'transfers': ts,
            'scripts': {'body': [], 'stream': []}, 'faults': [],
            'end': {'how': 'shutdown', 'wait_results': True},
            'sched': SCHEDS[0]}))
    for src in ('path', 'seek', 'nonseek'):
        mk(f'upload-{src}-single', [{'type': 'upload', 'src': src, 'size': 4,
                                     'start': 1, 'extra': {}}])
        mk(f'upload-{src}-multi', [{'type': 'upload', 'src': src, 'size': 8,
                                    'start': 1, 'extra': {}}])
    for dst in ('path', 'seek', 'nonseek', 'special'):
        mk(f'download-{dst}-single', [{'type': 'download', 'dst': dst,
                                       'size': 5, 'preexist': 4 if dst ==
                                       'path' else None}])
        mk(f'download-{dst}-ranged', [{'type': 'download', 'dst': dst,
                                       'size': 8, 'preexist': 4 if dst ==
                                       'path' else None}])
    mk('copy-single', [{'type': 'copy', 'size': 4, 'version': False,
                        'src_client': False, 'extra': {}}])
    mk('copy-multi', [{'type': 'copy', 'size': 8, 'version': False,
                       'src_client': True, 'extra': {}}])
    mk('delete', [{'type': 'delete', 'size': 1}])
    mk('mixed-ones', [
        {'type': 'upload', 'src': 'nonseek', 'size': 7, 'start': 0,
         'extra': {}},
        {'type': 'download', 'dst': 'nonseek', 'size': 7, 'preexist': None}],
        cfg=ONES)
    mk('two-downloads-ones', [
        {'type': 'download', 'dst': 'path', 'size': 7, 'preexist': None},
        {'type': 'download', 'dst': 'special', 'size': 7, 'preexist': None}],
        cfg=ONES)
    if kinds:
        out = [(n, c) for (n, c) in out if any(n.startswith(k)
                                               for k in kinds)]
    return out


def fault_specs(case, run):
    """Dry run -> every fault that can be planted (site, per-site ordinal,
    before/after, kinds)."""
    R = run(case)
    seen = {}
    specs = []
    for (site, key, n) in R.faults.site_log:
        g = seen.get(site, 0)
        seen[site] = g + 1
        if site == 's3.abort_multipart_upload':
            continue
        whens = ['before', 'after'] if site.startswith('s3.') else ['before']
        kinds = ['injected']
        if site in ('fs.write', 'dst.write', 'fs.open', 'fs.close'):
            kinds.append('brokenpipe')
        if site in ('stream.read', 's3.get_object'):
            kinds.append('retryable:1')
        if site in ('src.read', 'fs.read', 'dst.write', 'fs.write'):
            # what a closed file object raises
            kinds.append('valueerror')
        for w in whens:
            for k in kinds:
                specs.append({'site': site, 'nth': g, 'when': w, 'exc': k})
    return specs


def single_fault_cases(shard, nshards, run, kinds=None, pairs=False,
                       nsched=3):
    idx = 0
    for name, base in scenario_matrix(kinds):
        for si, sc in enumerate(SCHEDS[:nsched]):
            b = dict(copy.deepcopy(base), sched=sc)
            specs = None
            idx += 1
            if idx % nshards != shard:
                continue
            specs = fault_specs(b, run)
            for f in specs:
                yield name, dict(copy.deepcopy(b), faults=[f])
            if pairs:
                inj = [f for f in specs if f['exc'] == 'injected']
                for x in range(len(inj)):
                    for y in range(x + 1, len(inj)):
                        yield name, dict(copy.deepcopy(b),
                                         faults=[inj[x], inj[y]])


def serial_interrupt_cases(shard, nshards, run, kinds=None, pairs=False):
    """Every scenario of the matrix on the serial NonThreadedExecutor (boto3
    use_threads=False: every request, read and write runs on the user's
    thread) with a KeyboardInterrupt raised at every S3 call (before / after
    its effect), source read, stream read and destination open / seek /
    write / close / rename in turn.  Thorough: also every pair of one
    ordinary injected fault and one interrupt."""
    idx = 0
    for name, base in scenario_matrix(kinds):
        idx += 1
        if idx % nshards != shard:
            continue
        b = dict(copy.deepcopy(base), exec='serial', sched=SCHEDS[0])
        specs = [f for f in fault_specs(b, run)
                 if f['exc'] == 'injected' and not f['site'].startswith('cb.')]
        for f in specs:
            yield name, dict(copy.deepcopy(b), faults=[dict(f, exc='kbi')])
        if pairs:
            for x in range(len(specs)):
                for y in range(len(specs)):
                    if x != y:
                        yield name, dict(copy.deepcopy(b), faults=[
                            specs[x], dict(specs[y], exc='kbi')])


def single_preemption_cases(shard, nshards, run, pairs=False):
    """Every schedule with one preemption (thorough: two) for each scenario of
    the matrix extended with cancels and limits of one."""
    idx = 0
    mat = scenario_matrix()
    extra = []
    for name, base in mat:
        c = copy.deepcopy(base)
        c['cancels'] = [{'t': 0, 'at': 12}]
        c['transfers'][0]['subs'] = [{
            'size': False, 'raise_done': False,
            'reenter': {'done': ['cancel', 'set_exception'],
                        'queued': [], 'progress': []}}]
        extra.append((name + '+cancel', c))
        c2 = copy.deepcopy(base)
        c2['cfg'] = dict(ONES)
        c2['end'] = {'how': 'shutdown_cancel', 'msg': 'm', 'at': 20,
                     'wait_results': False}
        extra.append((name + '+ones+shutdown-cancel', c2))
    for name, base in mat + extra:
        idx += 1
        if idx % nshards != shard:
            continue
        b = dict(copy.deepcopy(base), sched={'mode': 'preempt', 'at': []})
        R = run(b)
        n = R.sched.nchoices
        yield name, b
        singles = [(i, k) for i in range(n) for k in (1, 2)]
        for (i, k) in singles:
            yield name, dict(copy.deepcopy(b),
                             sched={'mode': 'preempt', 'at': [[i, k]]})
        if pairs and n <= 120:
            step = max(1, n // 40)
            pts = list(range(0, n, step))
            for a in pts:
                for b2 in pts:
                    if b2 <= a:
                        continue
                    yield name, dict(copy.deepcopy(b), sched={
                        'mode': 'preempt', 'at': [[a, 1], [b2, 1]]})


def single_line_cases(shard, nshards, run, variants=('plain', 'cancel'),
                      picks=(0,), kinds=None):
    """Every scenario of the matrix (plain / with a cancel racing the
    submission task) with ONE forced preemption at every executed source line
    of s3transfer in turn (sys.monitoring LINE events), switching to the
    k-th other runnable thread for k in picks.  Races that do not go through
    a synchronisation primitive (a dropped lock, a check-then-act on a plain
    attribute) are reached this way."""
    mat = scenario_matrix(kinds)
    allc = []
    for name, base in mat:
        if 'plain' in variants:
            allc.append((name, base))
        if 'cancel' in variants:
            for at in (10, 12, 14):
                c = copy.deepcopy(base)
                c['cancels'] = [{'t': 0, 'at': at}]
                allc.append((f'{name}+cancel@{at}', c))
    idx = 0
    for name, base in allc:
        b = copy.deepcopy(base)
        R = run(dict(b, count_lines=True))
        n = R.nlines
        for ln in range(1, n + 1):
            idx += 1
            if idx % nshards != shard:
                continue
            for k in picks:
                yield name, dict(copy.deepcopy(b), lines=[[ln, k]])
