"""Structural shrink candidates for end-to-end Cases."""
import copy


def _drop_transfer(case, i):
    c = copy.deepcopy(case)
    del c['transfers'][i]
    if not c['transfers']:
        return None
    cs = []
    for x in c.get('cancels') or []:
        if x['t'] == i:
            continue
        if x['t'] > i:
            x = dict(x, t=x['t'] - 1)
        cs.append(x)
    if 'cancels' in c:
        c['cancels'] = cs
    return c


def e2e_candidates(case):
    c = case
    n = len(c['transfers'])
    for i in range(n):
        d = _drop_transfer(c, i)
        if d:
            yield d
    for key in ('faults', 'cancels'):
        lst = c.get(key) or []
        for i in range(len(lst)):
            d = copy.deepcopy(c)
            del d[key][i]
            yield d
    for i in range(len(c.get('lines') or [])):
        d = copy.deepcopy(c)
        del d['lines'][i]
        if not d['lines']:
            del d['lines']
        yield d
    for key in ('kbi', 'fresh', 'agg'):
        if c.get(key):
            d = copy.deepcopy(c)
            del d[key]
            yield d
    sc = c.get('sched') or {}
    if sc and sc != {'mode': 'walk', 'choices': []}:
        d = copy.deepcopy(c)
        d['sched'] = {'mode': 'walk', 'choices': []}
        yield d
    if sc.get('mode') == 'walk' and sc.get('choices'):
        ch = sc['choices']
        d = copy.deepcopy(c)
        d['sched']['choices'] = ch[:len(ch) // 2]
        yield d
        # strip trailing zeros / zero single entries
        for i in range(len(ch) - 1, -1, -1):
            if ch[i] != 0:
                d = copy.deepcopy(c)
                d['sched']['choices'][i] = 0
                yield d
                if i < len(ch) - 8:
                    break
    if sc.get('mode') == 'pct':
        if sc.get('changes'):
            d = copy.deepcopy(c)
            d['sched']['changes'] = sc['changes'][:-1]
            yield d
    if sc.get('mode') == 'preempt' and sc.get('at'):
        for i in range(len(sc['at'])):
            d = copy.deepcopy(c)
            del d['sched']['at'][i]
            yield d
    for kind in ('body', 'stream'):
        lst = (c.get('scripts') or {}).get(kind) or []
        if lst:
            d = copy.deepcopy(c)
            d['scripts'][kind] = []
            yield d
            for i in range(len(lst)):
                d = copy.deepcopy(c)
                del d['scripts'][kind][i]
                yield d
            for i, s in enumerate(lst):
                for k, v in s.items():
                    if v:
                        d = copy.deepcopy(c)
                        d['scripts'][kind][i][k] = type(v)() if not \
                            isinstance(v, (int, str)) else (
                                0 if isinstance(v, int) else v)
                        if k == 'fault_at':
                            d['scripts'][kind][i][k] = None
                        if d != c:
                            yield d
    for i, t in enumerate(c['transfers']):
        subs = t.get('subs') or []
        for j in range(len(subs)):
            d = copy.deepcopy(c)
            del d['transfers'][i]['subs'][j]
            yield d
        for j, s in enumerate(subs):
            if s.get('reenter'):
                d = copy.deepcopy(c)
                d['transfers'][i]['subs'][j]['reenter'] = {}
                yield d
                for w, ops in s['reenter'].items():
                    for k in range(len(ops)):
                        d = copy.deepcopy(c)
                        del d['transfers'][i]['subs'][j]['reenter'][w][k]
                        yield d
            for flag in ('size', 'raise_done'):
                if s.get(flag):
                    d = copy.deepcopy(c)
                    d['transfers'][i]['subs'][j][flag] = False
                    yield d
        if t.get('size', 0) > 0:
            for ns in (0, t['size'] // 2, t['size'] - 1):
                if ns != t['size']:
                    d = copy.deepcopy(c)
                    d['transfers'][i]['size'] = ns
                    yield d
        for k in ('start', 'preexist'):
            if t.get(k):
                d = copy.deepcopy(c)
                d['transfers'][i][k] = 0 if k == 'start' else None
                yield d
        if t.get('extra'):
            d = copy.deepcopy(c)
            d['transfers'][i]['extra'] = {}
            yield d
    if c.get('exec') != 'serial':
        d = copy.deepcopy(c)
        d['exec'] = 'serial'
        yield d
    for k, v in c['cfg'].items():
        if isinstance(v, int) and v > 1:
            for nv in (1, v // 2, v - 1):
                if nv != v and nv >= 1:
                    d = copy.deepcopy(c)
                    d['cfg'][k] = nv
                    yield d
    e = c.get('end') or {}
    if e.get('at'):
        d = copy.deepcopy(c)
        d['end']['at'] = 0
        yield d
    if e.get('wait_results'):
        d = copy.deepcopy(c)
        d['end']['wait_results'] = False
        yield d
    for x in ('cancels',):
        for i, cc in enumerate(c.get(x) or []):
            if cc.get('calls', 0) > 1:
                d = copy.deepcopy(c)
                d[x][i]['calls'] = cc['calls'] - 1
                yield d
            if cc.get('at'):
                for nv in (0, cc['at'] // 2):
                    d = copy.deepcopy(c)
                    d[x][i]['at'] = nv
                    yield d
    for i, f in enumerate(c.get('faults') or []):
        if f.get('nth'):
            d = copy.deepcopy(c)
            d['faults'][i]['nth'] = f['nth'] - 1
            yield d
