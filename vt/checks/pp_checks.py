"""C19: process-pool downloader replayed in-process."""
import copy

from . import Check
from .. import gen
from ..detsched import HarnessError


class C19(Check):
    id = 'C19'
    level = 'exploration'
    quick_examples = 24000
    thorough_examples = 300000
    assumptions = [
        'the cross-process protocol is replayed in ONE process: '
        's3transfer.processpool reaches multiprocessing / threading / signal '
        '/ TransferMonitorManager / ClientFactory / OSUtils / open through '
        'module names that are rebound to controlled shims, and '
        'BaseS3TransferProcess.start/join run the class\'s own run() in '
        'controlled threads; real pickling, signals and process scheduling '
        'are not exercised',
        'every monitor call is a scheduling point (as an IPC round trip)',
        'fake S3 client, in-memory file system (vt/fakes3.py, vt/fakefs.py)',
    ]
    rule = ('cases = the real ProcessPoolDownloader with 1-3 workers, 1-2 '
            'downloads of 1-4 jobs, faults in head / allocate / any job '
            '(retryable within and beyond the 5 attempts, non-retryable) / '
            'open / write / rename, future.cancel() at a drawn step, '
            'exception or KeyboardInterrupt leaving the with-block, Ctrl-C in'
            ' result(), x schedule; oracle: done only after every announced '
            'job was accounted for, destination complete or temp removed at '
            'the done moment, destination never partial at any file-system '
            'mutation, shutdown waits for everything, no deadlock; '
            'non-trivial = >=2 workers and >=2 jobs, or a fault/cancel '
            'delivered')

    def strategy(self, tier):
        return gen.pp_cases()

    def execute(self, case):
        from ..pp import run_pp_case, oracle_c19
        R = run_pp_case(case)
        if R.harness_error is not None:
            raise HarnessError(str(R.harness_error))
        out = {'violations': [], 'cls': [], 'nontrivial': False}
        if R.sched.budget_exceeded:
            c2 = dict(case, max_steps=10 * case.get('max_steps', 40000))
            R2 = run_pp_case(c2)
            if R2.sched.budget_exceeded:
                out['violations'].append(('c19:livelock', 'step budget '
                                          'exceeded twice'))
                return out
            out['inconclusive'] = True
            R = R2
        out['violations'] = oracle_c19(R)
        njobs = sum(1 for (_, _, n, a, _) in R.monitor_log
                    if n == 'notify_job_complete')
        fault = bool(R.trace.delivered) or any(
            'step' in c for c in R.cancel_log) or bool(
                R.sched.kbi_delivered)
        out['nontrivial'] = (case['cfg']['workers'] >= 2 and njobs >= 2) \
            or fault
        for r in R.transfers:
            o = r['outcome']
            out['cls'].append('none' if o is None else (
                'ok' if o.get('ok') else type(o.get('exc')).__name__))
        out['cls'].append('end=' + str(R.end.get('how')))
        if fault:
            out['cls'].append('fault-or-cancel')
        return out

    def shrink_candidates(self, case):
        for k in ('faults', 'cancels'):
            for i in range(len(case.get(k) or [])):
                c = copy.deepcopy(case)
                del c[k][i]
                yield c
        if case.get('kbi'):
            c = copy.deepcopy(case)
            del c['kbi']
            yield c
        if len(case['downloads']) > 1:
            for i in range(len(case['downloads'])):
                c = copy.deepcopy(case)
                del c['downloads'][i]
                c['cancels'] = [x for x in c.get('cancels') or []
                                if x['t'] < len(c['downloads'])]
                yield c
        sc = case.get('sched') or {}
        if sc != {'mode': 'walk', 'choices': []}:
            c = copy.deepcopy(case)
            c['sched'] = {'mode': 'walk', 'choices': []}
            yield c
        st_ = (case.get('scripts') or {}).get('stream') or []
        if st_:
            c = copy.deepcopy(case)
            c['scripts']['stream'] = []
            yield c
            for i in range(len(st_)):
                c = copy.deepcopy(case)
                del c['scripts']['stream'][i]
                yield c
        for i, d in enumerate(case['downloads']):
            if d['size'] > 0:
                for ns in (0, d['size'] // 2, d['size'] - 1):
                    c = copy.deepcopy(case)
                    c['downloads'][i]['size'] = ns
                    yield c
        if case['cfg']['workers'] > 1:
            c = copy.deepcopy(case)
            c['cfg']['workers'] -= 1
            yield c


class C20(Check):
    id = 'C20'
    level = 'exploration'
    quick_examples = 24000
    thorough_examples = 300000
    assumptions = [
        'a stub awscrt package stands for the CRT (the real one is absent '
        'here): make_request records its arguments; requests finish from '
        'controlled CRT threads which set finished_future and then call '
        'on_done, as awscrt does; only the Python glue in s3transfer/crt.py '
        'is judged',
        'the 128-permit semaphore object is swapped for a 1-3 permit one of '
        'the same shim class after construction',
        'vt/detsched.py schedules user and CRT threads',
    ]
    rule = ('cases = sequences of 1-6 upload/download(path or stream)/delete '
            'submissions against the stub CRT client, each request ending ok '
            '/ error / cancelled or failing at construction (serializer, '
            'make_request, on_queued), completion order drawn, 1-2 CRT '
            'threads, 1-3 permits (more transfers than permits), shutdown / '
            'shutdown(cancel) / with-exit / exception in the with-block, '
            'rename faults, x schedule; oracle: permits released == acquired '
            'at quiescence and never above capacity, on_done subscribers '
            'before the callbacks-complete flag, rename xor remove for path '
            'downloads, shutdown returns after every after-done handler; '
            'non-trivial = >=2 requests outstanding completed out of '
            'submission order, or a submit that had to wait for a permit, or '
            'a construction failure')

    def strategy(self, tier):
        return gen.crt_cases()

    def execute(self, case):
        from ..crt20 import run_crt_case, oracle_c20
        R = run_crt_case(case)
        if R.harness_error is not None:
            raise HarnessError(str(R.harness_error))
        out = {'violations': [], 'cls': [], 'nontrivial': False}
        if R.sched.budget_exceeded:
            out['inconclusive'] = True
            return out
        out['violations'] = oracle_c20(R)
        blocked = R.sem_track['min'] == 0 and len(R.transfers) > \
            case.get('permits', 2)
        fails = any(t['spec'].get('fail') for t in R.transfers)
        fin = [info['t'] for (_, _, k, info) in R.trace.events
               if k == 'crt.finished']
        ooo = fin != sorted(fin)
        out['nontrivial'] = bool(blocked or fails or ooo)
        out['cls'] = [f'blocked={blocked}', f'construction-failure={fails}',
                      f'out-of-order={ooo}',
                      'end=' + str(R.end.get('how'))]
        return out

    def shrink_candidates(self, case):
        if len(case['transfers']) > 1:
            for i in range(len(case['transfers'])):
                c = copy.deepcopy(case)
                del c['transfers'][i]
                yield c
        for i, t in enumerate(case['transfers']):
            for k, v in (('fail', None), ('finish', 'ok'),
                         ('raise_done', False), ('size', 0)):
                if t.get(k) != v:
                    c = copy.deepcopy(case)
                    c['transfers'][i][k] = v
                    yield c
            if t.get('subs', 0) > 0 and t.get('fail') != 'on_queued':
                c = copy.deepcopy(case)
                c['transfers'][i]['subs'] -= 1
                yield c
        if case.get('faults'):
            c = copy.deepcopy(case)
            c['faults'] = []
            yield c
        if (case.get('sched') or {}) != {'mode': 'walk', 'choices': []}:
            c = copy.deepcopy(case)
            c['sched'] = {'mode': 'walk', 'choices': []}
            yield c
        if case.get('nthreads', 1) > 1:
            yield dict(copy.deepcopy(case), nthreads=1)
        if case.get('order'):
            yield dict(copy.deepcopy(case), order=[])
