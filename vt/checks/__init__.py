"""Registry of checks (one per property)."""
import copy
import importlib

_REGISTRY = {
    'C01': ('vt.checks.e2e_checks', 'C01'),
    'C02': ('vt.checks.e2e_checks', 'C02'),
    'C03': ('vt.checks.e2e_checks', 'C03'),
    'C04': ('vt.checks.e2e_checks', 'C04'),
    'C05': ('vt.checks.e2e_checks', 'C05'),
    'C06': ('vt.checks.e2e_checks', 'C06'),
    'C07': ('vt.checks.e2e_checks', 'C07'),
    'C08': ('vt.checks.e2e_checks', 'C08'),
    'C09': ('vt.checks.e2e_checks', 'C09'),
    'C10': ('vt.checks.e2e_checks', 'C10'),
    'C11': ('vt.checks.e2e_checks', 'C11'),
    'C12': ('vt.checks.unit_checks', 'C12'),
    'C13': ('vt.checks.unit_checks', 'C13'),
    'C14': ('vt.checks.unit_checks', 'C14'),
    'C15': ('vt.checks.unit_checks', 'C15'),
    'C16': ('vt.checks.unit_checks', 'C16'),
    'C17': ('vt.checks.unit_checks', 'C17'),
    'C18': ('vt.checks.e2e_checks', 'C18'),
    'C19': ('vt.checks.pp_checks', 'C19'),
    'C20': ('vt.checks.pp_checks', 'C20'),
}


def get_check(pid):
    modname, cls = _REGISTRY[pid]
    mod = importlib.import_module(modname)
    return getattr(mod, cls)()


def register(pid, modname, cls):
    _REGISTRY[pid] = (modname, cls)


class Check:
    id = ''
    level = 'exploration'
    rule = ''
    assumptions = []
    technique = 'property-based testing'
    quick_examples = 1000
    thorough_examples = 10000
    scale = 1.0

    # coverage-guided campaigns: (number of campaigns, executions each)
    fuzz = {'quick': (2, 800), 'thorough': (16, 8000)}

    def fuzz_budget(self, tier):
        n, runs = self.fuzz.get(tier, (0, 0))
        return n, max(100, int(runs * min(1.0, self.scale * 4)))

    def examples(self, tier):
        n = self.quick_examples if tier == 'quick' else self.thorough_examples
        return int(n * self.scale)

    def strategy(self, tier):
        return None

    def execute(self, case):
        raise NotImplementedError

    def extra_shards(self, tier):
        return 0

    def extra_shard(self, tier, seed, shard, nshards, stats):
        pass

    def coverage_extra(self, tier, results):
        return {}

    def shrink_candidates(self, case):
        return []
