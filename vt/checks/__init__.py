"""Registry of checks (one per property)."""
import copy
import importlib

_REGISTRY = {
    'C04': ('vt.checks.e2e_checks', 'C04'),
}


def get_check(pid):
    modname, cls = _REGISTRY[pid]
    mod = importlib.import_module(modname)
    return getattr(mod, cls)()


def register(pid, modname, cls):
    _REGISTRY[pid] = (modname, cls)


class Check:
    id = ''
    level = 'exploration'
    rule = ''
    assumptions = []
    technique = 'property-based testing'
    quick_examples = 1000
    thorough_examples = 10000
    scale = 1.0

    def examples(self, tier):
        n = self.quick_examples if tier == 'quick' else self.thorough_examples
        return int(n * self.scale)

    def strategy(self, tier):
        return None

    def execute(self, case):
        raise NotImplementedError

    def extra_shards(self, tier):
        return 0

    def extra_shard(self, tier, seed, shard, nshards, stats):
        pass

    def coverage_extra(self, tier, results):
        return {}

    def shrink_candidates(self, case):
        return []
