"""Unit-level checks: reference models and exhaustive enumeration."""
import copy

from hypothesis import strategies as st

from . import Check
from .e2e_checks import E2ECheck, base_classes, TRUSTED
from .. import gen, oracles


class C16(E2ECheck):
    """DeferQueue vs reference model (exhaustive + drawn histories) plus
    end-to-end non-seekable downloads under C02's fault sequences."""
    id = 'C16'
    fuzz = {'quick': (2, 3000), 'thorough': (16, 60000)}
    quick_examples = 48000
    thorough_examples = 600000
    profile = {
        'types': ['download'], 'dsts': ['nonseek', 'nonseek', 'special'],
        'ntransfers': (1, 2), 'subs': {'max': 1, 'size': True},
        'stream_scripts': True, 'ends': ['shutdown'],
        'max_thr': 24, 'max_chunk': 12,
    }
    assumptions = TRUSTED + [
        'delivery histories are those the download loop can produce '
        '(consecutive chunks from the part start per attempt)']
    rule = ('(a) exhaustive: every delivery history over n bytes, <=3 parts, '
            '<=2 attempts per part (all cut points, stop points and merge '
            'orders) for the n stated in coverage.exhaustive_bound, run on '
            'the real DeferQueue against a set-of-delivered-positions '
            'reference model checked after every request_writes; (b) '
            'Hypothesis histories up to 40 bytes / 4 parts / 3 attempts; (c) '
            'end-to-end downloads to non-seekable destinations with short '
            'reads and retryable stream faults; non-trivial = a re-delivery '
            'of already delivered bytes or out-of-order parts (a/b), a '
            'successful transfer with a stream retry or >=2 parts (c)')

    def bound(self, tier):
        return (5, 3, 2) if tier == 'quick' else (6, 3, 2)

    def strategy(self, tier):
        from ..units import deferq
        return gen.weighted(
            (3, deferq.histories().map(lambda h: {'kind': 'hist', 'h': h})),
            # more parts pending at once (the default window is 10 chunks)
            (1, deferq.histories(64, 10, 3).map(
                lambda h: {'kind': 'hist', 'h': h})),
            (2, gen.e2e_cases(self.profile).map(
                lambda c: dict(c, kind='e2e'))))

    def execute(self, case):
        from ..units import deferq
        if case.get('kind') == 'hist':
            viol, info = deferq.run_history(case['h'])
            out = {'violations': [], 'cls': ['hist'], 'nontrivial': False}
            if viol:
                out['violations'].append((f'c16:queue:{viol[0]}', viol[1]))
            else:
                out['nontrivial'] = info['redelivery'] or info['ooo']
                out['cls'] = [f'hist:redelivery={info["redelivery"]}:'
                              f'ooo={info["ooo"]}']
            return out
        return super().execute(case)

    @staticmethod
    def oracle(R):
        v = []
        for sig, msg in oracles.oracle_c02(R):
            if 'too-many-gets' in sig:
                continue
            v.append((sig.replace('c02:', 'c16:e2e:'), msg))
        return v

    def classify(self, R):
        cls = ['e2e']
        nt = False
        for r in R.transfers:
            ok = (r['outcome'] or {}).get('ok')
            m = oracles.mode_of(R, r)
            f = oracles.had_stream_fault(R, r)
            cls.append(f'e2e:{r["spec"]["dst"]}:{m}:'
                       f'{"retry" if f else "clean"}')
            if ok and (f or m == 'ranged'):
                nt = True
        return cls, nt

    def shrink_candidates(self, case):
        if case.get('kind') == 'hist':
            h = case['h']
            # drop attempts, merge -> [], shrink n is hard; keep simple
            for i, (start, attempts) in enumerate(h['parts']):
                for j in range(len(attempts) - 1):
                    c = copy.deepcopy(case)
                    del c['h']['parts'][i][1][j]
                    yield c
                for j, cuts in enumerate(attempts):
                    for k in range(len(cuts) - 1):
                        c = copy.deepcopy(case)
                        cc = c['h']['parts'][i][1][j]
                        cc[k:k + 2] = [cc[k] + cc[k + 1]]
                        yield c
            if h.get('merge'):
                c = copy.deepcopy(case)
                c['h']['merge'] = []
                yield c
                c = copy.deepcopy(case)
                c['h']['merge'] = h['merge'][:len(h['merge']) // 2]
                yield c
            return
        for c in super().shrink_candidates(case):
            yield dict(c, kind='e2e')

    # exhaustive part
    def extra_shards(self, tier):
        return 16

    def extra_shard(self, tier, seed, shard, nshards, stats):
        from ..units import deferq
        n, mp, ma = self.bound(tier)
        count = 0
        for nn in range(1, n + 1):
            for idx, h in enumerate(deferq.enumerate_histories(nn, mp, ma)):
                if idx % nshards != shard:
                    continue
                h2 = dict(h)
                h2['merge'] = []
                deliveries = deferq.flatten_abs(h)
                count += 1
                viol, info = self._run_abs(h, deliveries)
                out = {'violations': [], 'cls': [f'exh:n={nn}'],
                       'nontrivial': False,
                       'fp': f'x{nn}-{idx}'}
                case = {'kind': 'hist', 'h': self._to_rel(h)}
                if viol:
                    out['violations'].append((f'c16:queue:{viol[0]}',
                                              viol[1]))
                else:
                    out['nontrivial'] = info['redelivery'] or info['ooo']
                stats.add(case, out, max_samples=1)

    @staticmethod
    def _to_rel(h):
        """re-encode an absolute merge order so that flatten() replays it"""
        parts = h['parts']
        lens = [sum(len(a) for a in attempts) for _, attempts in parts]
        pos = [0] * len(parts)
        merge = []
        for i in h['merge_abs']:
            live = [j for j in range(len(parts)) if pos[j] < lens[j]]
            merge.append(live.index(i))
            pos[i] += 1
        return {'n': h['n'], 'parts': parts, 'merge': merge}

    def _run_abs(self, h, deliveries):
        from ..units import deferq
        return deferq.run_history(self._to_rel(h))

    def coverage_extra(self, tier, results):
        n, mp, ma = self.bound(tier)
        return {'exhaustive': True,
                'exhaustive_bound': f'all histories with n<={n} bytes, '
                                    f'<={mp} parts, <={ma} attempts per part',
                'explanation': 'exhaustive: true refers to sub-domain (a) '
                               'only; (b) and (c) are sampled'}


class C12(E2ECheck):
    id = 'C12'
    fuzz = {'quick': (2, 3000), 'thorough': (16, 60000)}
    quick_examples = 40000
    thorough_examples = 600000
    profile = {
        'ntransfers': (1, 4), 'limits': 'ones',
        'subs': {'max': 1, 'size': True},
        'stream_scripts': True, 'stream_hard_faults': True,
        'fault_sites': ['s3.' + o for o in gen.S3_OPS] + [
            'src.read', 'fs.write', 'dst.write', 'cb.on_progress',
            'fs.rename'],
        'max_faults': 2, 'cancels': 2,
        'ends': ['shutdown', 'shutdown', 'shutdown_cancel', 'with_exc'],
    }
    rule = ('(a) exhaustive DFS over every sequence of {non-blocking acquire'
            '(tag), release(held token), release(unknown tag), release('
            'never-issued token)} with <=3 tags (up to renaming), capacity '
            '1..3, to the depth stated in coverage.exhaustive_bound, real '
            'SlidingWindowSemaphore vs reference model after every op; (b) '
            'Hypothesis sequences up to 40 ops / capacity 5 and TaskSemaphore'
            ' sequences; (c) blocking histories under the deterministic '
            'scheduler (<=3 blocking acquirers, 1-2 releasers, drawn release'
            ' order and schedule); (d) quiescence of every manager semaphore'
            ' after end-to-end runs with failures and cancels; non-trivial ='
            ' history with an out-of-order release (a,b), a parked acquirer '
            '(c), a failed/cancelled transfer (d)')

    def depth(self, tier):
        return 7 if tier == 'quick' else 9

    def strategy(self, tier):
        from ..units import sema
        task = st.builds(
            lambda c, o: {'kind': 'task', 'cap': c, 'ops': o},
            st.integers(1, 4),
            st.lists(st.sampled_from(['a', 'a', 'r']), max_size=20))
        return gen.weighted(
            (2, sema.sequences()), (2, sema.blocking_cases()), (1, task),
            (1, gen.e2e_cases(self.profile).map(
                lambda c: dict(c, kind='e2e'))))

    @staticmethod
    def oracle(R):
        return [('c12:' + s, m) for s, m in oracles.oracle_quiescence(R)]

    def classify(self, R):
        bad = any(r['outcome'] and not r['outcome'].get('ok')
                  for r in R.transfers)
        return ['e2e:' + ('failed' if bad else 'clean')], bad

    def execute(self, case):
        from ..units import sema
        k = case.get('kind')
        out = {'violations': [], 'cls': [k], 'nontrivial': False}
        if k == 'seq':
            ops = [tuple(o) for o in case['ops']]
            viol, info = sema.run_sequence(case['cap'], ops)
            if viol:
                out['violations'].append(('c12:seq:' + viol[0], viol[1]))
            else:
                out['nontrivial'] = info['ooo']
                out['cls'] = [f'seq:ooo={info["ooo"]}']
            return out
        if k == 'task':
            viol = sema.run_task_semaphore(case['cap'], case['ops'])
            if viol:
                out['violations'].append(('c12:' + viol[0], viol[1]))
            out['nontrivial'] = len(case['ops']) > case['cap']
            return out
        if k == 'block':
            viol, info = sema.run_blocking(case)
            if viol:
                out['violations'].append(('c12:' + viol[0], viol[1]))
            out['nontrivial'] = info.get('blocked', False)
            out['cls'] = [f'block:parked={info.get("blocked")}']
            return out
        return super().execute(case)

    def shrink_candidates(self, case):
        k = case.get('kind')
        if k == 'seq':
            ops = case['ops']
            for i in range(len(ops) - 1, -1, -1):
                c = copy.deepcopy(case)
                del c['ops'][i]
                yield c
            if case['cap'] > 1:
                yield dict(case, cap=case['cap'] - 1)
            return
        if k == 'block':
            c = copy.deepcopy(case)
            c['sched'] = {'mode': 'walk', 'choices': []}
            yield c
            if len(case['acq']) > 1:
                c = copy.deepcopy(case)
                c['acq'] = c['acq'][:-1]
                c['hold'] = c['hold'][:-1]
                yield c
            return
        if k == 'task':
            return
        for c in super().shrink_candidates(case):
            yield dict(c, kind='e2e')

    def extra_shards(self, tier):
        return 16

    def extra_shard(self, tier, seed, shard, nshards, stats):
        from ..units import sema
        d = self.depth(tier)
        for cap in (1, 2, 3):
            def visit(ops, cap=cap):
                viol, info = sema.run_sequence(cap, ops)
                out = {'violations': [], 'cls': [f'dfs:cap={cap}'],
                       'nontrivial': False,
                       'fp': f'd{cap}-' + repr(ops)}
                if viol:
                    out['violations'].append(('c12:seq:' + viol[0], viol[1]))
                else:
                    out['nontrivial'] = info['ooo']
                stats.add({'kind': 'seq', 'cap': cap,
                           'ops': [list(o) for o in ops]}, out,
                          max_samples=1)
            sema.dfs(cap, d, shard, nshards, visit)

        def bvisit(case, viol, info):
            out = {'violations': [], 'cls': ['block-systematic'],
                   'nontrivial': info.get('blocked', False)}
            if viol:
                out['violations'].append(('c12:' + viol[0], viol[1]))
            stats.add(case, out, max_samples=1)
        sema.systematic_blocking(shard, nshards, bvisit)

    def coverage_extra(self, tier, results):
        return {'exhaustive': True,
                'exhaustive_bound': f'all operation sequences of length '
                                    f'{self.depth(tier)} (and their '
                                    f'prefixes), <=3 tags, capacity 1..3; '
                                    f'blocking scenarios (cap 1-2, 2-3 '
                                    f'acquirers, 1-2 tags): every schedule '
                                    f'with <=2 preemptions; the same '
                                    f'scenarios with the first / the last '
                                    f'acquirer non-blocking: every schedule '
                                    f'with <=1 preemption',
                'explanation': 'exhaustive: true refers to sub-domain (a)'}


class C17(Check):
    id = 'C17'
    fuzz = {'quick': (2, 3000), 'thorough': (16, 60000)}
    quick_examples = 40000
    thorough_examples = 600000
    assumptions = [
        'operations are generated as every caller uses them: announce_done '
        'only after a terminal status; result() only once it no longer '
        'blocks',
        'concurrent histories run under vt/detsched.py with up to 3 '
        'line-level preemptions (sys.monitoring) besides the '
        'synchronisation points',
        'the done event is read through TransferCoordinator._done_event',
    ]
    rule = ('(a) exhaustive: every sequence over the 11 coordinator/future '
            'operations {queued, running, set_result, set_exception, '
            'set_exception(override), cancel, cancel(FatalError), '
            'announce_done, add_done_callback, add_failure_cleanup, user '
            'set_exception} up to the length in coverage.exhaustive_bound, '
            'real objects vs a reference state machine, all observers '
            'compared after every operation; (b) Hypothesis sequences up to '
            '30 ops; (c) 2-3 threads running drawn operation lists under the '
            'deterministic scheduler with line-level preemption: done() '
            'monotone at every step, final state linearizable; non-trivial ='
            ' >=2 terminal operations (set_result/set_exception/cancel/user '
            'set_exception) in the history')

    def depth(self, tier):
        return 6 if tier == 'quick' else 7

    def strategy(self, tier):
        from ..units import coord
        return gen.weighted((1, coord.sequences()),
                            (2, coord.concurrent_cases()))

    def execute(self, case):
        from ..units import coord
        out = {'violations': [], 'cls': [case['kind']], 'nontrivial': False}
        if case['kind'] == 'seq':
            viol, info = coord.run_sequence(case['ops'])
            if viol:
                out['violations'].append(('c17:seq:' + viol[0], viol[1]))
            else:
                out['nontrivial'] = info['terminal_ops'] >= 2
        else:
            viol, info = coord.run_concurrent(case)
            if viol:
                out['violations'].append(('c17:' + viol[0], viol[1]))
            else:
                out['nontrivial'] = info.get('terminal', 0) >= 2
        return out

    def shrink_candidates(self, case):
        if case['kind'] == 'seq':
            for i in range(len(case['ops']) - 1, -1, -1):
                c = copy.deepcopy(case)
                del c['ops'][i]
                if c['ops']:
                    yield c
        else:
            c = copy.deepcopy(case)
            c['sched'] = {'mode': 'walk', 'choices': []}
            yield c
            if case.get('lines'):
                for i in range(len(case['lines'])):
                    c = copy.deepcopy(case)
                    del c['lines'][i]
                    yield c
            for t in range(len(case['threads'])):
                for i in range(len(case['threads'][t])):
                    c = copy.deepcopy(case)
                    del c['threads'][t][i]
                    if all(c['threads']):
                        yield c

    def extra_shards(self, tier):
        return 16

    def extra_shard(self, tier, seed, shard, nshards, stats):
        from ..units import coord
        for d in range(1, self.depth(tier) + 1):
            if d < 3 and shard != 0:
                continue
            for ops in coord.enumerate_sequences(
                    d, shard if d >= 3 else 0, nshards if d >= 3 else 1):
                viol, info = coord.run_sequence(ops)
                out = {'violations': [], 'cls': [f'exh:len={d}'],
                       'nontrivial': False, 'fp': 'x' + ''.join(ops)}
                if viol:
                    out['violations'].append(('c17:seq:' + viol[0], viol[1]))
                else:
                    out['nontrivial'] = info['terminal_ops'] >= 2
                stats.add({'kind': 'seq', 'ops': list(ops)}, out,
                          max_samples=1)
        # systematic single line-level preemption: two threads running one
        # operation each, from two start states, preempted at EVERY executed
        # source line of futures.py in turn
        for case, viol, info, fp in coord.systematic_line_cases(
                coord.LINE_PREFIXES, shard, nshards):
            out = {'violations': [], 'cls': ['line-preempt'],
                   'nontrivial': info.get('terminal', 0) >= 2, 'fp': fp}
            if viol:
                out['violations'].append(('c17:' + viol[0], viol[1]))
            stats.add(case, out, max_samples=1)

    def coverage_extra(self, tier, results):
        return {'exhaustive': True,
                'exhaustive_bound': f'all operation sequences of length <= '
                                    f'{self.depth(tier)} over 11 operations; '
                                    f'all 2-thread x 1-operation scenarios '
                                    f'from 6 start states with one '
                                    f'preemption at every executed line',
                'explanation': 'exhaustive: true refers to sub-domain (a)'}


def pp_planning_cases():
    return st.builds(
        lambda thr, chunk, size, exp: {
            'kind': 'pp',
            'cfg': {'multipart_threshold': thr, 'multipart_chunksize': chunk,
                    'workers': 2},
            'downloads': [{'size': size, 'preexist': None,
                           'expected_size': exp, 'extra': {}}],
            'faults': [], 'scripts': {}, 'cancels': [],
            'end': {'how': 'shutdown', 'wait_results': True},
            'sched': {'mode': 'walk', 'choices': []}},
        st.integers(1, 40), st.integers(1, 16), st.integers(0, 70),
        st.booleans())


class C14(E2ECheck):
    id = 'C14'
    fuzz = {'quick': (2, 3000), 'thorough': (16, 60000)}
    quick_examples = 30000
    thorough_examples = 500000
    oracle = staticmethod(oracles.oracle_c14)
    profile = {
        'types': ['upload', 'upload', 'download', 'copy'],
        'ntransfers': (1, 1), 'subs': {'max': 1, 'size': True},
        'ends': ['shutdown'], 'execs': ['serial', 'thr'],
        'max_thr': 64, 'max_chunk': 32,
    }
    rule = ('(a) exhaustive on a scaled domain: all (size 0..400, part 1..64)'
            ' for calculate_num_parts/calculate_range_parameter (with and '
            'without total_size), all (size 0..600 and None, chunk 1..80) '
            'for ChunksizeAdjuster(min 5, max 40, parts 10); (b) real scale: '
            'Hypothesis points over sizes to 5 TiB and chunks to 6 GiB biased'
            ' to k*c-1/+0/+1, powers of two +-1 and the S3 limits +-1; (c) '
            'end to end: Range / CopySourceRange / PartNumber / body length '
            'of the requests the TransferManager, the legacy S3Transfer and '
            'the process-pool downloader issue, plus data-less real-scale '
            'multipart copies up to 5 TiB (scaled adjuster for the '
            'manager; the legacy uploader has no adjuster by design and is '
            'judged on tiling and numbering only); '
            'oracle = validity predicates (tiling, numbering, limits, '
            'chunk unchanged when valid); non-trivial = size not a multiple '
            'of the part size, or a limit active')

    def strategy(self, tier):
        from ..units import planning
        return gen.weighted(
            (2, planning.real_scale_points()),
            (2, gen.e2e_cases(self.profile).map(
                lambda c: dict(c, kind='e2e'))),
            (1, gen.legacy_cases()), (1, pp_planning_cases()))

    def classify(self, R):
        cfg = R.case['cfg']
        nt = False
        cls = []
        adj = R.case.get('adj') or [5 * 1024 ** 2, 5 * 1024 ** 3, 10000]
        for r in R.transfers:
            size = r['spec'].get('size', 0)
            m = oracles.mode_of(R, r)
            cls.append(f'e2e:{r["type"]}:{m}')
            if m in ('multipart', 'ranged') and (
                    size % cfg['multipart_chunksize'] or
                    cfg['multipart_chunksize'] < adj[0] or
                    cfg['multipart_chunksize'] > adj[1]):
                nt = True
        return cls, nt

    def execute(self, case):
        from ..units import planning
        if case.get('kind') == 'legacy':
            from ..legacy import run_legacy_case, oracle_legacy
            R = run_legacy_case(case)
            out = {'violations': [], 'cls': ['legacy'], 'nontrivial': False}
            if R.hang:
                out['inconclusive'] = True
                return out
            out['violations'] = [(sig.replace('legacy:', 'c14:legacy:', 1),
                                  m) for sig, m in oracle_legacy(R, {'C14'})]
            out['nontrivial'] = case['size'] >= case['threshold'] and \
                bool(case['size'] % case['chunk'])
            out['cls'] = [f'legacy:{case["op"]}']
            return out
        if case.get('kind') == 'pp':
            return self.execute_pp(case)
        if case.get('kind') == 'real':
            out = {'violations': [], 'cls': ['real'], 'nontrivial': False}
            viol = planning.check_real_point(case)
            if viol:
                out['violations'].append(('c14:' + viol[0], viol[1]))
            c, s = case['chunk'], case['size']
            out['nontrivial'] = bool(s % c) or c < planning.S3_MIN_PART \
                or c > planning.S3_MAX_PART or \
                planning.ceil_div(s, c) > planning.S3_MAX_PARTS
            return out
        return super().execute(case)

    def execute_pp(self, case):
        import re
        from ..pp import run_pp_case
        R = run_pp_case(case)
        if R.harness_error is not None:
            raise R.harness_error
        out = {'violations': [], 'cls': ['processpool'], 'nontrivial': False}
        t = R.transfers[0]
        size = len(t['expect'])
        thr = case['cfg']['multipart_threshold']
        chunk = case['cfg']['multipart_chunksize']
        if not (t['outcome'] or {}).get('ok'):
            return out
        rngs = []
        for c in R.trace.calls:
            if c['op'] == 'get_object' and 'Range' in c['kwargs']:
                m = re.match(r'^bytes=(\d+)-(\d*)$', c['kwargs']['Range'])
                if m:
                    rngs.append((int(m.group(1)),
                                 int(m.group(2)) if m.group(2) else None))
        if bool(rngs) != (size >= thr):
            out['violations'].append(
                ('c14:processpool:mode', f'size {size} threshold {thr}: '
                                         f'ranged={bool(rngs)}'))
        rngs.sort()
        nxt = 0
        bad = None
        for k, (a, b) in enumerate(rngs):
            if a != nxt:
                bad = f'range {k} starts at {a}, expected {nxt}'
                break
            nxt = size if b is None else b + 1
        if rngs and not bad and nxt != size:
            bad = f'ranges end at {nxt}, size {size}'
        if rngs and not bad and len(rngs) != -(-size // chunk):
            bad = f'{len(rngs)} ranges for size {size} chunk {chunk}'
        if bad:
            out['violations'].append(('c14:processpool:ranges',
                                      f'{bad} ({rngs})'))
        out['nontrivial'] = bool(rngs) and bool(size % chunk)
        return out

    def shrink_candidates(self, case):
        if case.get('kind') in ('real', 'legacy', 'pp'):
            return
        for c in super().shrink_candidates(case):
            yield dict(c, kind='e2e')

    def extra_shards(self, tier):
        return 16

    def huge_copies(self, tier, seed, shard, nshards, stats):
        import hypothesis
        from hypothesis import given, settings, HealthCheck, Phase
        from ..runner import derive_seed

        def one(case):
            out = E2ECheck.execute(self, case)
            out['cls'] = ['real-scale-copy']
            out['nontrivial'] = True
            stats.add(case, out, max_samples=0)
        # the full boundary product, in both tiers
        for i, case in enumerate(gen.huge_copy_matrix()):
            if i % nshards == shard:
                one(case)
        if tier != 'thorough':
            return

        @hypothesis.seed(derive_seed(seed, shard, 'C14huge'))
        @settings(max_examples=max(1, 320 // nshards), database=None,
                  deadline=None, phases=[Phase.generate],
                  suppress_health_check=list(HealthCheck))
        @given(gen.huge_copy_cases())
        def drive(case):
            one(case)
        drive()

    def extra_shard(self, tier, seed, shard, nshards, stats):
        from ..units import planning
        self.huge_copies(tier, seed, shard, nshards, stats)
        for size in range(0, 401):
            if size % nshards != shard:
                continue
            for part in range(1, 65):
                for wt in (False, True):
                    viol = planning.check_ranges(size, part, wt)
                    out = {'violations': [], 'cls': ['exh:ranges'],
                           'nontrivial': bool(size % part),
                           'fp': f'r{size}-{part}-{wt}'}
                    if viol:
                        out['violations'].append(
                            ('c14:scaled:' + viol[0], viol[1]))
                    stats.add({'kind': 'ranges', 'size': size, 'part': part,
                               'total': wt}, out, max_samples=1)
        for size in list(range(0, 601)) + [None]:
            if (size or 0) % nshards != shard:
                continue
            for chunk in range(1, 81):
                viol = planning.check_adjuster(5, 40, 10, chunk, size)
                out = {'violations': [], 'cls': ['exh:adjuster'],
                       'nontrivial': chunk < 5 or chunk > 40 or (
                           size is not None and
                           planning.ceil_div(size, chunk) > 10),
                       'fp': f'a{size}-{chunk}'}
                if viol:
                    out['violations'].append(
                        ('c14:scaled:' + viol[0], viol[1]))
                stats.add({'kind': 'adjuster', 'size': size, 'chunk': chunk},
                          out, max_samples=1)

    def coverage_extra(self, tier, results):
        return {'exhaustive': True,
                'exhaustive_bound': 'ranges: size 0..400 x part 1..64 x '
                                    '{total_size given, not given}; adjuster '
                                    '(5,40,10): size 0..600|None x chunk '
                                    '1..80',
                'explanation': 'exhaustive: true refers to sub-domain (a)'}


class C15(Check):
    id = 'C15'
    quick_examples = 0
    thorough_examples = 0
    assumptions = [
        'input shapes come from the installed botocore S3 service model '
        '(loaded from disk)',
        'abort_multipart_upload is judged only for unknown parameter names '
        '(DESIGN 3.9); on the copy HeadObject the destination SSE-C '
        'arguments are not judged',
        'fake client records keyword arguments; strict parameter validation '
        'is off so that unknown names are reported by the oracle',
    ]
    rule = ('exhaustive over the finite cell space: TransferManager upload / '
            'download / copy / delete x {single, multipart|ranged} x {size '
            'discovered, provided in on_queued} x request_checksum_'
            'calculation x {every allowed argument alone, every subset (>=2) '
            'of the checksum family for uploads, all arguments together}, '
            'plus every S3 input member name outside the allow-list '
            '(rejection before any request); the same for the legacy '
            'S3Transfer.upload_file/download_file and the process-pool '
            'download_file; every cell is non-trivial; distinct = the cell')

    def extra_shards(self, tier):
        return 16

    def run_cell(self, cell):
        from ..units import routing
        from ..e2e import run_case
        case = routing.make_case(*cell)
        R = run_case(case)
        if R.harness_error is not None:
            raise R.harness_error
        return case, routing.judge(R, cell)

    def execute(self, case):
        from ..units import routing
        c = case['cell']
        if c[0] == 'legacy':
            _, viol = routing.run_legacy_cell(tuple(c[:3]) + (tuple(c[3]),))
        elif c[0] == 'pp':
            _, viol = routing.run_pp_cell(tuple(c[:3]) + (tuple(c[3]),))
        else:
            cell = tuple(c[:4]) + (tuple(c[4]),)
            _, viol = self.run_cell(cell)
        return {'violations': viol, 'cls': [str(c[0])], 'nontrivial': True}

    def extra_shard(self, tier, seed, shard, nshards, stats):
        from ..units import routing
        allc = routing.cells() + routing.disallowed_cells() + \
            routing.legacy_cells() + routing.pp_cells()
        for idx, cell in enumerate(allc):
            if idx % nshards != shard:
                continue
            if cell[0] == 'legacy':
                case, viol = routing.run_legacy_cell(cell)
                stats.add(case, {'violations': viol, 'nontrivial': True,
                                 'cls': [f'legacy:{cell[1]}:{cell[2]}'],
                                 'fp': repr(cell)}, max_samples=1)
                continue
            if cell[0] == 'pp':
                case, viol = routing.run_pp_cell(cell)
                stats.add(case, {'violations': viol, 'nontrivial': True,
                                 'cls': [f'processpool:{cell[1]}'],
                                 'fp': repr(cell)}, max_samples=1)
                continue
            case, viol = self.run_cell(cell)
            al = cell[4] and cell[4][0] not in \
                routing.allowed_lists()[cell[0]]
            stats.add(case, {
                'violations': viol, 'nontrivial': True,
                'cls': [f'{cell[0]}:{cell[1]}:'
                        f'{"disallowed" if al else "allowed"}'],
                'fp': repr(cell)}, max_samples=1)

    def coverage_extra(self, tier, results):
        return {'exhaustive': True,
                'explanation': 'the cell space is finite and enumerated '
                               'completely in both tiers'}


class C13(E2ECheck):
    id = 'C13'
    quick_examples = 40000
    thorough_examples = 500000
    assumptions = TRUSTED + [
        'virtual time: s3transfer.bandwidth.time is the scheduler clock; '
        'time only advances when every thread is parked',
        'burst allowance K=3 x (bytes_threshold + largest read) per stream '
        '(DESIGN 3.8); demand-below-limit judged when bytes_threshold<=1 so '
        'that every read is one consumption',
    ]
    rule = ('(a) discrete-event simulation in virtual time on the real '
            'LeakyBucket/BandwidthLimitedStream: 1-8 streams with drawn '
            '(read size, think time) scripts biased to amount/max_bandwidth x'
            ' {0,.5,.99,1,1.01,1.25}, drawn bytes_threshold, late wake-ups, '
            'streams whose transfer fails at a drawn time (also while parked'
            ' in the sleep), drawn schedule; oracle over the history of read '
            'events and requested sleeps (window rate bound, no delay below '
            'the limit, one bounded wait per throttled read, failed '
            'transfers raise, no starvation); (b) end-to-end uploads/'
            'downloads with max_bandwidth set (manager wiring; signing reads '
            'not charged); non-trivial = >=2 streams and >=1 refused read')
    profile = {
        'types': ['upload', 'download'], 'ntransfers': (1, 3),
        'subs': {'max': 1, 'size': True}, 'body_scripts': True,
        'stream_scripts': True, 'ends': ['shutdown'], 'cancels': 1,
        'max_thr': 30, 'max_chunk': 12,
    }

    def strategy(self, tier):
        from ..units import bandwidth

        def with_bw(c, bwv, thr):
            c = dict(c, kind='e2e', bw_threshold=thr)
            c['cfg'] = dict(c['cfg'], max_bandwidth=bwv)
            return c
        e2e = st.builds(with_bw, gen.e2e_cases(self.profile),
                        st.sampled_from([5, 20, 100, 1000]),
                        st.sampled_from([1, 4, 16]))
        return gen.weighted((3, bandwidth.histories()), (1, e2e))

    @staticmethod
    def oracle(R):
        return oracles.oracle_c13_e2e(R)

    def classify(self, R):
        n = len(R.bw_sleeps)
        return [f'e2e:sleeps={min(n, 3)}'], n >= 1 and len(R.transfers) >= 2

    def execute(self, case):
        from ..units import bandwidth
        if case.get('kind') == 'des':
            out = {'violations': [], 'cls': ['des'], 'nontrivial': False}
            viol, info = bandwidth.run_history(case)
            if viol:
                out['violations'].append(('c13:' + viol[0], viol[1]))
            out['nontrivial'] = info.get('streams', 0) >= 2 and \
                info.get('refused', 0) >= 1
            out['cls'] = [f'des:refused={min(info.get("refused", 0), 3)}'
                          f':parked-abandon={info.get("abandoned_parked")}'
                          f':below={info.get("below")}']
            return out
        return super().execute(case)

    def shrink_candidates(self, case):
        if case.get('kind') == 'des':
            c = copy.deepcopy(case)
            c['sched'] = {'mode': 'walk', 'choices': []}
            yield c
            for k in ('late', 'abandon'):
                for i in range(len(case.get(k) or [])):
                    c = copy.deepcopy(case)
                    del c[k][i]
                    yield c
            for i in range(len(case['streams'])):
                if len(case['streams']) > 1:
                    c = copy.deepcopy(case)
                    del c['streams'][i]
                    c['abandon'] = [a for a in c['abandon'] if a[0] <
                                    len(c['streams'])]
                    yield c
                for j in range(len(case['streams'][i])):
                    if len(case['streams'][i]) > 1:
                        c = copy.deepcopy(case)
                        del c['streams'][i][j]
                        yield c
            return
        for c in super().shrink_candidates(case):
            yield dict(c, kind='e2e')
