"""Unit-level checks: reference models and exhaustive enumeration."""
import copy

from hypothesis import strategies as st

from . import Check
from .e2e_checks import E2ECheck, base_classes, TRUSTED
from .. import gen, oracles


class C16(E2ECheck):
    """DeferQueue vs reference model (exhaustive + drawn histories) plus
    end-to-end non-seekable downloads under C02's fault sequences."""
    id = 'C16'
    quick_examples = 48000
    thorough_examples = 1000000
    profile = {
        'types': ['download'], 'dsts': ['nonseek', 'nonseek', 'special'],
        'ntransfers': (1, 2), 'subs': {'max': 1, 'size': True},
        'stream_scripts': True, 'ends': ['shutdown'],
        'max_thr': 24, 'max_chunk': 12,
    }
    assumptions = TRUSTED + [
        'delivery histories are those the download loop can produce '
        '(consecutive chunks from the part start per attempt)']
    rule = ('(a) exhaustive: every delivery history over n bytes, <=3 parts, '
            '<=2 attempts per part (all cut points, stop points and merge '
            'orders) for the n stated in coverage.exhaustive_bound, run on '
            'the real DeferQueue against a set-of-delivered-positions '
            'reference model checked after every request_writes; (b) '
            'Hypothesis histories up to 40 bytes / 4 parts / 3 attempts; (c) '
            'end-to-end downloads to non-seekable destinations with short '
            'reads and retryable stream faults; non-trivial = a re-delivery '
            'of already delivered bytes or out-of-order parts (a/b), a '
            'successful transfer with a stream retry or >=2 parts (c)')

    def bound(self, tier):
        return (5, 3, 2) if tier == 'quick' else (6, 3, 2)

    def strategy(self, tier):
        from ..units import deferq
        return st.one_of(
            deferq.histories().map(lambda h: {'kind': 'hist', 'h': h}),
            deferq.histories().map(lambda h: {'kind': 'hist', 'h': h}),
            gen.e2e_cases(self.profile).map(
                lambda c: dict(c, kind='e2e')))

    def execute(self, case):
        from ..units import deferq
        if case.get('kind') == 'hist':
            viol, info = deferq.run_history(case['h'])
            out = {'violations': [], 'cls': ['hist'], 'nontrivial': False}
            if viol:
                out['violations'].append((f'c16:queue:{viol[0]}', viol[1]))
            else:
                out['nontrivial'] = info['redelivery'] or info['ooo']
                out['cls'] = [f'hist:redelivery={info["redelivery"]}:'
                              f'ooo={info["ooo"]}']
            return out
        return super().execute(case)

    @staticmethod
    def oracle(R):
        v = []
        for sig, msg in oracles.oracle_c02(R):
            if 'too-many-gets' in sig:
                continue
            v.append((sig.replace('c02:', 'c16:e2e:'), msg))
        return v

    def classify(self, R):
        cls = ['e2e']
        nt = False
        for r in R.transfers:
            ok = (r['outcome'] or {}).get('ok')
            m = oracles.mode_of(R, r)
            f = oracles.had_stream_fault(R, r)
            cls.append(f'e2e:{r["spec"]["dst"]}:{m}:'
                       f'{"retry" if f else "clean"}')
            if ok and (f or m == 'ranged'):
                nt = True
        return cls, nt

    def shrink_candidates(self, case):
        if case.get('kind') == 'hist':
            h = case['h']
            # drop attempts, merge -> [], shrink n is hard; keep simple
            for i, (start, attempts) in enumerate(h['parts']):
                for j in range(len(attempts) - 1):
                    c = copy.deepcopy(case)
                    del c['h']['parts'][i][1][j]
                    yield c
                for j, cuts in enumerate(attempts):
                    for k in range(len(cuts) - 1):
                        c = copy.deepcopy(case)
                        cc = c['h']['parts'][i][1][j]
                        cc[k:k + 2] = [cc[k] + cc[k + 1]]
                        yield c
            if h.get('merge'):
                c = copy.deepcopy(case)
                c['h']['merge'] = []
                yield c
                c = copy.deepcopy(case)
                c['h']['merge'] = h['merge'][:len(h['merge']) // 2]
                yield c
            return
        for c in super().shrink_candidates(case):
            yield dict(c, kind='e2e')

    # exhaustive part
    def extra_shards(self, tier):
        return 16

    def extra_shard(self, tier, seed, shard, nshards, stats):
        from ..units import deferq
        n, mp, ma = self.bound(tier)
        count = 0
        for nn in range(1, n + 1):
            for idx, h in enumerate(deferq.enumerate_histories(nn, mp, ma)):
                if idx % nshards != shard:
                    continue
                h2 = dict(h)
                h2['merge'] = []
                deliveries = deferq.flatten_abs(h)
                count += 1
                viol, info = self._run_abs(h, deliveries)
                out = {'violations': [], 'cls': [f'exh:n={nn}'],
                       'nontrivial': False,
                       'fp': f'x{nn}-{idx}'}
                case = {'kind': 'hist', 'h': self._to_rel(h)}
                if viol:
                    out['violations'].append((f'c16:queue:{viol[0]}',
                                              viol[1]))
                else:
                    out['nontrivial'] = info['redelivery'] or info['ooo']
                stats.add(case, out, max_samples=1)

    @staticmethod
    def _to_rel(h):
        """re-encode an absolute merge order so that flatten() replays it"""
        parts = h['parts']
        lens = [sum(len(a) for a in attempts) for _, attempts in parts]
        pos = [0] * len(parts)
        merge = []
        for i in h['merge_abs']:
            live = [j for j in range(len(parts)) if pos[j] < lens[j]]
            merge.append(live.index(i))
            pos[i] += 1
        return {'n': h['n'], 'parts': parts, 'merge': merge}

    def _run_abs(self, h, deliveries):
        from ..units import deferq
        return deferq.run_history(self._to_rel(h))

    def coverage_extra(self, tier, results):
        n, mp, ma = self.bound(tier)
        return {'exhaustive': True,
                'exhaustive_bound': f'all histories with n<={n} bytes, '
                                    f'<={mp} parts, <={ma} attempts per part',
                'explanation': 'exhaustive: true refers to sub-domain (a) '
                               'only; (b) and (c) are sampled'}
