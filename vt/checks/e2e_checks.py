"""End-to-end checks (one Trace, one oracle per property)."""
import copy

from . import Check
from .shrink import e2e_candidates
from .. import gen, oracles
from ..detsched import HarnessError

TRUSTED = [
    'fake S3 service/client (vt/fakes3.py) stands for botocore+HTTP+S3; its '
    'upload body protocol was derived from botocore endpoint/awsrequest/'
    'httpchecksum sources',
    'schedules are explored at the granularity of synchronisation, I/O and '
    'callback events under a sequentially consistent one-thread-at-a-time '
    'execution (vt/detsched.py)',
    'in-memory file system behind the injectable OSUtils (vt/fakefs.py)',
    'upload/copy part sizes use the real ChunksizeAdjuster class with scaled '
    'limits (DESIGN 2.5)',
]


class E2ECheck(Check):
    profile = {}
    oracle = None
    assumptions = TRUSTED

    def strategy(self, tier):
        return gen.e2e_cases(self.profile)

    def run(self, case):
        from ..e2e import run_case
        R = run_case(case)
        if R.harness_error is not None:
            raise HarnessError(str(R.harness_error))
        return R

    def classify(self, R):
        return ['-'], False

    def execute(self, case):
        R = self.run(case)
        out = {'violations': [], 'cls': [], 'nontrivial': False}
        if R.sched.budget_exceeded:
            # livelock rule: exceeded twice, second time with 10x budget
            c2 = dict(case, max_steps=10 * case.get('max_steps', 60000))
            R2 = self.run(c2)
            if R2.sched.budget_exceeded:
                out['violations'].append(
                    ('livelock', 'step budget exceeded twice (10x on the '
                                 'second run)'))
            else:
                out['inconclusive'] = True
                R = R2
        if not R.sched.budget_exceeded:
            out['violations'] += type(self).oracle(R)
        cls, nt = self.classify(R)
        out['cls'] = cls
        out['nontrivial'] = nt
        return out

    def shrink_candidates(self, case):
        return e2e_candidates(case)


class SystematicMixin:
    """Adds exhaustive-up-to-a-bound exploration over the fixed scenario
    matrix of vt/systematic.py (single fault sites / single preemptions;
    pairs in the thorough tier)."""
    systematic = 'faults'        # or 'preempt'
    systematic_kinds = None

    def extra_shards(self, tier):
        return 16

    def _run_plain(self, case):
        return self.run(case)

    def extra_shard(self, tier, seed, shard, nshards, stats):
        from .. import systematic
        pairs = tier == 'thorough'
        if self.systematic == 'faults':
            it = systematic.single_fault_cases(
                shard, nshards, self._run_plain, self.systematic_kinds,
                pairs=pairs)
        else:
            it = systematic.single_preemption_cases(
                shard, nshards, self._run_plain, pairs=pairs)
        for name, case in it:
            out = E2ECheck.execute(self, case)
            out['cls'] = [f'systematic:{name}']
            stats.add(case, out, max_samples=1)
        for name, case in systematic.serial_interrupt_cases(
                shard, nshards, self._run_plain, self.systematic_kinds,
                pairs=pairs):
            out = E2ECheck.execute(self, case)
            out['cls'] = [f'serial-interrupt:{name}']
            stats.add(case, out, max_samples=1)

    def coverage_extra(self, tier, results):
        what = ('every single fault site (before/after effect, each fault '
                'kind) of every scenario of the fixed matrix x 3 schedules'
                if self.systematic == 'faults' else
                'every schedule with one preemption for every scenario of '
                'the fixed matrix (plain, +cancel with re-entrant on_done, '
                '+limits of one with shutdown(cancel))')
        if tier == 'thorough':
            what += '; thorough: also pairs'
        what += ('; plus every scenario on the serial executor with a '
                 'KeyboardInterrupt raised at every S3 call (before/after '
                 'effect), source/stream read and destination operation in '
                 'turn (class serial-interrupt; thorough: also paired with '
                 'one ordinary fault)')
        return {'exhaustive': True, 'exhaustive_bound': what,
                'explanation': 'exhaustive: true refers to this systematic '
                               'sub-domain; the Hypothesis part is sampled'}


class RealScaleMixin:
    """Adds a thin real-scale class: unscaled ChunksizeAdjuster and
    MiB-sized payloads (a fixed number of cases per run)."""
    real_types = ('upload', 'download', 'copy')
    real_cases = {'quick': 48, 'thorough': 480}

    def extra_shards(self, tier):
        return 16

    def extra_shard(self, tier, seed, shard, nshards, stats):
        parent = super()
        if hasattr(parent, 'extra_shard'):
            parent.extra_shard(tier, seed, shard, nshards, stats)
        import hypothesis
        from hypothesis import given, settings, HealthCheck, Phase
        from ..runner import derive_seed
        # +1: the first example Hypothesis generates is always the simplest
        # one (identical in every shard)
        n = max(1, self.real_cases[tier] // nshards) + 1

        @hypothesis.seed(derive_seed(seed, shard, self.id + 'real'))
        @settings(max_examples=n, database=None, deadline=None,
                  phases=[Phase.generate],
                  suppress_health_check=list(HealthCheck))
        @given(gen.real_scale_cases(self.real_types,
                                    getattr(self, 'real_need_subs', False)))
        def drive(case):
            out = E2ECheck.execute(self, case)
            out['cls'] = ['real-scale:' + case['transfers'][0]['type']]
            stats.add(case, out, max_samples=0)
        drive()


class PoolMixin:
    """Adds the process-pool downloader (replayed in-process, vt/pp.py) as a
    further front-end; pool_sigs selects which of its oracle's signatures
    belong to this property."""
    pool_sigs = ()
    pool_share = 8

    def strategy(self, tier):
        from hypothesis import strategies as st
        base = super().strategy(tier)
        pool = gen.pp_cases().map(lambda c: dict(c, kind='pool'))
        return gen.weighted((self.pool_share - 1, base), (1, pool))

    def execute(self, case):
        if case.get('kind') == 'pool':
            from ..pp import run_pp_case, oracle_c19
            R = run_pp_case(case)
            if R.harness_error is not None:
                raise HarnessError(str(R.harness_error))
            out = {'violations': [], 'cls': ['processpool'],
                   'nontrivial': False}
            if R.sched.budget_exceeded or R.sched.deadlock:
                out['inconclusive'] = True
                return out
            pid = self.id.lower()
            for sig, msg in oracle_c19(R):
                if any(sig.startswith('c19:' + p) for p in self.pool_sigs):
                    out['violations'].append(
                        (sig.replace('c19:', f'{pid}:processpool:', 1), msg))
            oks = [r for r in R.transfers if (r['outcome'] or {}).get('ok')]
            out['nontrivial'] = bool(R.trace.delivered) or any(
                len(r['expect']) >= case['cfg']['multipart_threshold']
                for r in oks)
            return out
        return super().execute(case)

    def shrink_candidates(self, case):
        if case.get('kind') == 'pool':
            from .pp_checks import C19
            for c in C19().shrink_candidates(case):
                yield dict(c, kind='pool')
            return
        yield from super().shrink_candidates(case)


class LegacyMixin:
    """Adds the legacy S3Transfer front-end (real threads, schedule-
    independent oracles) as a second class of cases."""
    legacy_ops = ('upload', 'download')
    legacy_props = ()
    legacy_faults = False
    legacy_share = 6          # 1 in N cases is a legacy case

    def strategy(self, tier):
        from hypothesis import strategies as st
        base = super().strategy(tier)
        leg = gen.legacy_cases(self.legacy_ops, self.legacy_faults)
        return gen.weighted((self.legacy_share - 1, base), (1, leg))

    def execute(self, case):
        if case.get('kind') == 'legacy':
            from ..legacy import run_legacy_case, oracle_legacy
            R = run_legacy_case(case)
            out = {'violations': [], 'cls': [], 'nontrivial': False}
            if R.hang:
                out['inconclusive'] = True
                out['cls'] = ['legacy:hang']
                return out
            pid = self.id.lower()
            out['violations'] = [
                (sig.replace('legacy:', f'{pid}:legacy:', 1)
                 if not sig.startswith(pid) else sig, msg)
                for sig, msg in oracle_legacy(R, set(self.legacy_props))]
            o = R.transfers[0]['outcome'] or {}
            multi = case['size'] >= case['threshold']
            out['cls'] = [f'legacy:{case["op"]}:'
                          f'{"multi" if multi else "single"}:'
                          f'{"ok" if o.get("ok") else "fail"}']
            out['nontrivial'] = bool(multi or R.trace.delivered)
            return out
        return super().execute(case)

    def shrink_candidates(self, case):
        if case.get('kind') == 'legacy':
            import copy
            for k in ('faults',):
                for i in range(len(case.get(k) or [])):
                    c = copy.deepcopy(case)
                    del c[k][i]
                    yield c
            for kind in ('body', 'stream'):
                if (case.get('scripts') or {}).get(kind):
                    c = copy.deepcopy(case)
                    c['scripts'][kind] = []
                    yield c
            for k in ('size', 'threshold', 'chunk'):
                if case[k] > 1:
                    for nv in (1, case[k] // 2, case[k] - 1):
                        if nv >= (0 if k == 'size' else 1):
                            c = copy.deepcopy(case)
                            c[k] = nv
                            yield c
            return
        yield from super().shrink_candidates(case)


def base_classes(R):
    c = R.case
    cls = []
    cls.append('exec=' + c.get('exec', 'thr'))
    cls.append('sched=' + (c.get('sched') or {}).get('mode', 'walk'))
    for r in R.transfers:
        t = r['spec']
        kind = t['type'] + ':' + (t.get('src') or t.get('dst') or '-')
        o = r['outcome']
        res = 'none' if o is None else ('ok' if o.get('ok') else
                                        type(o.get('exc')).__name__)
        cls.append(f'{kind}:{res}')
    if any(isinstance(e, KeyboardInterrupt)
           for (_, _, e, _) in R.trace.delivered):
        cls.append('serial-interrupt-in-call')
    return cls


class C04(SystematicMixin, E2ECheck):
    id = 'C04'
    systematic = 'preempt'
    oracle = staticmethod(oracles.oracle_c04)
    quick_examples = 24000
    thorough_examples = 400000
    profile = {
        'serial_kbi': True,
        'rejects': True,
        'latency': True,
        'limits': 'ones', 'ntransfers': (1, 4),
        'subs': {'max': 2, 'reenter': True, 'raise_done': True,
                 'size': True},
        'body_scripts': True, 'stream_scripts': True,
        'stream_hard_faults': True,
        'fault_sites': ['s3.' + o for o in gen.S3_OPS] + [
            'src.read', 'fs.open', 'fs.write', 'fs.close', 'fs.rename',
            'fs.read', 'dst.write', 'cb.on_queued', 'cb.on_progress'],
        'max_faults': 2, 'cancels': 2, 'kbi': True, 'lines': True,
        'ends': ['shutdown', 'shutdown', 'shutdown_cancel', 'with',
                 'with_exc', 'with_kbi'],
    }
    rule = ('cases = TransferManager programs (1-4 transfers of mixed type, '
            'limits biased to 1, faults, cancels, Ctrl-C, re-entrant '
            'subscribers) x generated schedule (random walk / PCT / bounded '
            'preemption) run under the deterministic scheduler; '
            'non-trivial = >=2 threads blocked simultaneously at some step, '
            'or a fault/cancel was delivered; distinct = hash of the case')

    def classify(self, R):
        cls = base_classes(R)
        nt = (R.sched.max_blocked >= 2 or bool(R.trace.delivered)
              or any('step' in c for c in R.case.get('cancels') or []))
        cls.append(f'max_blocked={min(R.sched.max_blocked, 4)}')
        if R.trace.delivered:
            cls.append('fault-delivered')
        return cls, nt


ALL_FAULT_SITES = ['s3.' + o for o in gen.S3_OPS] + [
    'src.read', 'fs.open', 'fs.write', 'fs.close', 'fs.rename', 'fs.read',
    'dst.write', 'cb.on_queued', 'cb.on_progress']


def boundary_size(R, r):
    cfg = R.case['cfg']
    n = r['spec'].get('size', 0)
    t, c = cfg['multipart_threshold'], cfg['multipart_chunksize']
    return n in (0, t - 1, t, t + 1) or (c and (n % c in (0, 1, c - 1)))


class C01(RealScaleMixin, LegacyMixin, E2ECheck):
    id = 'C01'
    real_types = ('upload', 'copy')
    legacy_ops = ('upload',)
    legacy_props = ('C01',)
    oracle = staticmethod(oracles.oracle_c01)
    quick_examples = 32000
    thorough_examples = 400000
    profile = {
        'types': ['upload', 'upload', 'copy'], 'ntransfers': (1, 3),
        'subs': {'max': 1, 'size': True}, 'body_scripts': True,
        'checksum': True, 'cancels': 1, 'ends': ['shutdown'],
    }
    rule = ('cases = 1-3 uploads/copies (path / seekable stream at an offset'
            ' / non-seekable stream; boundary-biased sizes) x config x body '
            'scripts (pre-flight and signing reads, block sizes, client-level'
            ' rewinds, aws-chunked wrapper) x schedule; oracle = round trip '
            'through the fake service + CompleteMultipartUpload arguments; '
            'non-trivial = a successful multipart transfer with >=2 parts, '
            'or >=1 body rewind, or a non-path source, or a boundary size')

    def classify(self, R):
        cls = base_classes(R)
        nt = False
        rew = any(k == 's3.rewind' for (_, _, k, _) in R.trace.events)
        for r in R.transfers:
            if not (r['outcome'] or {}).get('ok'):
                continue
            m = oracles.mode_of(R, r)
            ups = oracles.uploads_of(R, r)
            nparts = max([len(getattr(u, 'final_parts', [])) for u in ups]
                         or [0])
            cls.append(f'{r["type"]}:{m}:parts='
                       + (str(nparts) if nparts < 4 else '4-9' if nparts < 10
                          else '10+'))
            if nparts >= 2 or rew or r['spec'].get('src') in (
                    'seek', 'nonseek') or boundary_size(R, r):
                nt = True
        if rew:
            cls.append('rewind')
        return cls, nt


class C02(PoolMixin, RealScaleMixin, LegacyMixin, E2ECheck):
    id = 'C02'
    pool_sigs = ('success-dest', 'too-many-gets')
    real_types = ('download',)
    legacy_ops = ('download',)
    legacy_props = ('C02',)
    oracle = staticmethod(oracles.oracle_c02)
    quick_examples = 32000
    thorough_examples = 400000
    profile = {
        'types': ['download'], 'ntransfers': (1, 2),
        'subs': {'max': 1, 'size': True}, 'stream_scripts': True,
        'ends': ['shutdown'],
    }
    rule = ('cases = 1-2 TransferManager downloads (path absent/pre-existing,'
            ' seekable stream, non-seekable stream, special file) x config x '
            'per-attempt stream scripts (short reads, retryable fault after k'
            ' bytes) x schedule; oracle = destination equals the object, '
            'non-seekable writes sequential, GETs per range <= attempts; '
            'non-trivial = success with >=1 mid-stream retryable fault, or '
            'short reads, or >=2 ranged parts, or a streaming destination')

    def classify(self, R):
        cls = base_classes(R)
        nt = False
        for r in R.transfers:
            ok = (r['outcome'] or {}).get('ok')
            m = oracles.mode_of(R, r)
            f = oracles.had_stream_fault(R, r)
            cls.append(f'{r["spec"]["dst"]}:{m}:{"retry" if f else "clean"}:'
                       f'{"ok" if ok else "fail"}')
            if ok and (f or m == 'ranged' or r['spec']['dst'] in (
                    'nonseek', 'special', 'seek')):
                nt = True
        return cls, nt


class C03(SystematicMixin, E2ECheck):
    id = 'C03'
    level = 'fault_enumeration'
    systematic = 'faults'
    oracle = staticmethod(oracles.oracle_c03)
    quick_examples = 32000
    thorough_examples = 400000
    profile = {
        'serial_kbi': True,
        'ntransfers': (1, 2), 'subs': {'max': 1, 'size': True},
        'body_scripts': True, 'stream_scripts': True,
        'stream_hard_faults': True,
        'fault_sites': [s for s in ALL_FAULT_SITES
                        if s != 's3.abort_multipart_upload']
        + ['stream.read'],
        'fault_excs': ['injected', 'injected', 'oserror', 'retryable:1',
                       'brokenpipe', 'valueerror'],
        'min_faults': 1, 'max_faults': 2, 'cancels': 1,
        'ends': ['shutdown'],
    }
    rule = ('cases = 1-2 transfers of any type/mode with a fault plan of 1-2'
            ' faults (k-th call of an S3 operation before/after its effect, '
            'k-th source read, destination open/write/close/rename, '
            'on_queued/on_progress callback, stream faults within and beyond'
            ' the retry budget), optional cancel, schedule; oracle = '
            'result() raises a delivered fault / RetriesExceededError over '
            'one / the cancellation error; non-trivial = >=1 fault delivered'
            ' and not absorbed by the retry budget')

    def classify(self, R):
        cls = base_classes(R)
        nt = False
        for (step, site, exc, info) in R.trace.delivered:
            cls.append(f'fault:{site}:{info.get("when")}')
            nt = True
        return cls, nt


class C05(SystematicMixin, LegacyMixin, E2ECheck):
    id = 'C05'
    level = 'fault_enumeration'
    systematic = 'faults'
    systematic_kinds = ('upload-path-multi', 'upload-seek-multi',
                        'upload-nonseek-multi', 'copy-multi')
    legacy_ops = ('upload',)
    legacy_props = ('C05',)
    legacy_faults = True
    oracle = staticmethod(oracles.oracle_c05)
    quick_examples = 32000
    thorough_examples = 350000
    profile = {
        'serial_kbi': True,
        'latency': True,
        'types': ['upload', 'upload', 'copy'], 'ntransfers': (1, 2),
        'subs': {'max': 1, 'size': True}, 'body_scripts': True,
        'max_thr': 12, 'max_chunk': 10, 'size_bias': 'multi',
        'fault_sites': ['s3.create_multipart_upload', 's3.upload_part',
                        's3.upload_part_copy',
                        's3.complete_multipart_upload', 'src.read',
                        'fs.read', 'cb.on_queued', 'cb.on_progress',
                        's3.head_object', 's3.abort_multipart_upload'],
        'min_faults': 1, 'max_faults': 2, 'cancels': 2,
        'ends': ['shutdown', 'shutdown', 'shutdown_cancel', 'with_exc'],
    }
    rule = ('cases = multipart-biased uploads/copies x fault plan (create / '
            'part / complete before or after effect, source read, callbacks)'
            ' x cancels at drawn steps x schedule; oracle over the fake '
            'service multipart table (per upload id: ordered log with begin/'
            'end steps); non-trivial = an upload id was delivered and the '
            'future failed or was cancelled')

    def classify(self, R):
        cls = base_classes(R)
        nt = False
        for up in R.svc.uploads.values():
            if not up.delivered:
                cls.append('upload-id-not-delivered')
                continue
            r = next((x for x in R.transfers if x['key'] == up.key), None)
            if r and r['outcome'] and not r['outcome'].get('ok'):
                nt = True
                cls.append('mpu-failed:' + up.state)
            else:
                cls.append('mpu-ok')
        return cls, nt


class C06(PoolMixin, SystematicMixin, LegacyMixin, E2ECheck):
    id = 'C06'
    level = 'fault_enumeration'
    pool_sigs = ('partial-visible', 'temp-file-at-done',
                 'failure-clobbered')
    systematic = 'faults'
    systematic_kinds = ('download-path',)
    legacy_ops = ('download',)
    legacy_props = ('C06',)
    legacy_faults = True
    oracle = staticmethod(oracles.oracle_c06)
    quick_examples = 32000
    thorough_examples = 350000
    profile = {
        'serial_kbi': True,
        'long_names': True,
        'cancel_points': True,
        'types': ['download'], 'dsts': ['path'], 'ntransfers': (1, 2),
        'subs': {'max': 1, 'size': True}, 'stream_scripts': True,
        'stream_hard_faults': True,
        'fault_sites': ['fs.open', 'fs.write', 'fs.close', 'fs.rename',
                        's3.get_object', 's3.head_object', 'cb.on_progress',
                        'stream.read'],
        'max_faults': 2, 'cancels': 2,
        'ends': ['shutdown', 'shutdown', 'shutdown_cancel', 'with_exc'],
    }
    rule = ('cases = 1-2 path downloads (destination absent or holding '
            'previous content; single and ranged) x faults in open/write/'
            'close/rename and requests x cancels x schedule; oracle checks '
            'the destination after EVERY file-system mutation (= every crash '
            'point) and the directory when the future is done; non-trivial ='
            ' failure or cancel after >=1 byte reached the temp file, or a '
            'pre-existing destination')

    def classify(self, R):
        cls = base_classes(R)
        nt = False
        for r in R.transfers:
            wrote = any(k == 'fs.write' and info['path'].startswith(
                r['fileobj'] + '.') for (_, _, k, info) in R.trace.events)
            ok = (r['outcome'] or {}).get('ok')
            pre = r['spec'].get('preexist') is not None
            cls.append(f'{"ok" if ok else "fail"}:wrote={wrote}:pre={pre}')
            if (not ok and wrote) or pre:
                nt = True
        return cls, nt


class C07(E2ECheck):
    id = 'C07'
    oracle = staticmethod(oracles.oracle_c07)
    quick_examples = 32000
    thorough_examples = 350000
    profile = {
        'cancel_points': True,
        'latency': True,
        'ntransfers': (1, 3), 'subs': {'max': 1, 'size': True},
        'body_scripts': True, 'stream_scripts': True,
        'cancels': 2, 'kbi': True,
        'ends': ['shutdown', 'shutdown_cancel', 'shutdown_cancel',
                 'with_exc', 'with_kbi', 'with'],
    }
    rule = ('cases = 1-3 transfers x cancellation entry point (future.'
            'cancel() from a second thread at a drawn step, shutdown(cancel='
            'True, cancel_msg), exception / KeyboardInterrupt leaving the '
            'with-block, Ctrl-C while parked in result()/shutdown()) x '
            'schedule, no injected faults; non-trivial = the cancel landed '
            'strictly between the first and last event of >=1 transfer')

    def classify(self, R):
        cls = base_classes(R)
        cls.append('end=' + str(R.end.get('how')))
        nt = False
        for r in R.transfers:
            i = r['i']
            steps = [c['step'] for c in R.cancel_log
                     if c['t'] == i and 'step' in c]
            if R.end.get('how') in ('shutdown_cancel', 'with_exc',
                                    'with_kbi'):
                steps.append(R.end.get('cancel_step', 0))
            steps += [x[0] for x in R.sched.kbi_delivered]
            calls = oracles.calls_of(R, r)
            if calls and steps:
                b = min(c['begin'] or 0 for c in calls)
                ann = R.announced.get(i, 1 << 60)
                if any(b < st < ann for st in steps):
                    nt = True
                    cls.append('cancel-mid-transfer')
        if R.sched.kbi_delivered:
            cls.append('kbi@' + R.sched.kbi_delivered[0][1])
        return cls, nt


class C08(E2ECheck):
    id = 'C08'
    oracle = staticmethod(oracles.oracle_c08)
    quick_examples = 32000
    thorough_examples = 350000
    profile = {
        'serial_kbi': True,
        'cancel_points': True,
        'latency': True,
        'ntransfers': (1, 3),
        'subs': {'min': 1, 'max': 3, 'size': True, 'raise_done': True},
        'body_scripts': True, 'stream_scripts': True,
        'stream_hard_faults': True,
        'fault_sites': [s for s in ALL_FAULT_SITES if s != 'cb.on_queued'],
        'max_faults': 1, 'cancels': 2, 'lines': True,
        'ends': ['shutdown', 'shutdown', 'shutdown_cancel', 'with_exc'],
    }
    rule = ('cases = 1-3 transfers each with 1-3 recording subscribers '
            '(some raising in on_done, some supplying the size) x every '
            'outcome (faults, cancels racing the submission task) x '
            'schedule; oracle on callback steps vs the fake-S3 call log; '
            'non-trivial = an outcome other than plain success; the '
            'coordinator-level two-thread scenarios (class coord-line-preempt,'
            ' one forced line preemption each) all count as non-trivial')

    def classify(self, R):
        cls = base_classes(R)
        nt = any(r['outcome'] and not r['outcome'].get('ok')
                 for r in R.transfers)
        return cls, nt

    # coordinator-level part: done announced from two threads at once with a
    # forced preemption at every executed line of futures.py (the run-once
    # guarantee of the done-callback / failure-cleanup lists)
    COORD_SIGS = ('conc:callback-ran-twice', 'conc:cleanup-ran-twice',
                  'conc:callback-never-ran')

    def _coord_out(self, viol, info, fp=None):
        out = {'violations': [], 'cls': ['coord-line-preempt'],
               'nontrivial': True}
        if fp:
            out['fp'] = fp
        if viol and viol[0] in self.COORD_SIGS:
            out['violations'].append(('c08:coord:' + viol[0][5:], viol[1]))
        return out

    def execute(self, case):
        if case.get('kind') == 'conc':
            from ..units import coord
            viol, info = coord.run_concurrent(case)
            return self._coord_out(viol, info)
        return super().execute(case)

    def shrink_candidates(self, case):
        if case.get('kind') == 'conc':
            return []
        return super().shrink_candidates(case)

    def extra_shards(self, tier):
        return 16

    def extra_shard(self, tier, seed, shard, nshards, stats):
        from ..units import coord
        from .. import systematic
        for case, viol, info, fp in coord.systematic_line_cases(
                coord.LINE_PREFIXES[2:], shard, nshards):
            stats.add(case, self._coord_out(viol, info, fp), max_samples=0)
        # whole transfers: one forced preemption at every executed line
        picks = (0, 1) if tier == 'thorough' else (0,)
        for name, case in systematic.single_line_cases(
                shard, nshards, self.run, picks=picks):
            out = E2ECheck.execute(self, case)
            out['cls'] = [f'line-systematic:{name.split("+")[0]}']
            stats.add(case, out, max_samples=0)
        # serial executor: a Ctrl-C inside every request / read / write
        for name, case in systematic.serial_interrupt_cases(
                shard, nshards, self.run, pairs=tier == 'thorough'):
            out = E2ECheck.execute(self, case)
            out['cls'] = [f'serial-interrupt:{name}']
            stats.add(case, out, max_samples=0)

    def coverage_extra(self, tier, results):
        return {'coordinator_level': 'every pair of coordinator operations '
                'on two threads from 4 start states with registered done '
                'callbacks and failure cleanups, one forced preemption at '
                'every executed line of futures.py (class coord-line-preempt)',
                'line_systematic': 'every scenario of the fixed matrix '
                '(plain, and with a cancel at 3 early steps) with one forced '
                'preemption at every executed s3transfer source line '
                '(thorough: to each of 2 other threads)',
                'serial_interrupt': 'every scenario of the fixed matrix on '
                'the serial executor with a KeyboardInterrupt raised at '
                'every S3 call (before/after effect), read and destination '
                'operation in turn (thorough: also paired with one fault)'}


class C09(RealScaleMixin, E2ECheck):
    id = 'C09'
    oracle = staticmethod(oracles.oracle_c09)
    quick_examples = 32000
    thorough_examples = 400000
    profile = {
        'types': ['upload', 'upload', 'download', 'download', 'copy'],
        'ntransfers': (1, 2), 'subs': {'min': 1, 'max': 2, 'size': True},
        'body_scripts': True, 'stream_scripts': True, 'agg': True,
        'fault_sites': ['s3.get_object'],
        'fault_excs': ['retryable:0', 'retryable:2', 'retryable:4'],
        'max_faults': 2, 'ends': ['shutdown'],
    }
    rule = ('cases = uploads/downloads/copies with recording subscribers x '
            'body scripts (rewinds, signing reads with progress suppressed, '
            'aws-chunked wrapper) x stream scripts (retryable faults at any '
            'byte) x scaled aggregation threshold x schedule; oracle = sum '
            'of bytes_transferred == size on success, running sum within '
            '[0,size]; plus a unit-level machine driving ReadFileChunk with '
            'arbitrary read/seek(whence 0,1,2)/enable/disable sequences '
            'against a reference cursor model; non-trivial = >=1 negative '
            'callback, or >=2 parts, or a cursor beyond the chunk')

    def strategy(self, tier):
        from hypothesis import strategies as st
        from ..units import rfc
        return gen.weighted((3, super().strategy(tier)),
                            (1, rfc.sequences()))

    def execute(self, case):
        if case.get('kind') == 'rfc':
            from ..units import rfc
            viol, info = rfc.run_sequence(case)
            out = {'violations': [], 'cls': ['rfc'], 'nontrivial': False}
            if viol:
                out['violations'].append(('c09:readfilechunk:' + viol[0],
                                          viol[1]))
            else:
                out['nontrivial'] = info['neg'] or info['beyond']
            return out
        return super().execute(case)

    def shrink_candidates(self, case):
        if case.get('kind') == 'rfc':
            import copy
            for i in range(len(case['ops']) - 1, -1, -1):
                c = copy.deepcopy(case)
                del c['ops'][i]
                yield c
            return
        yield from super().shrink_candidates(case)

    real_need_subs = True
    real_cases = {'quick': 32, 'thorough': 320}

    def extra_shards(self, tier):
        return 16

    def extra_shard(self, tier, seed, shard, nshards, stats):
        # a thin real-scale class: real 256 KiB aggregation threshold,
        # MiB-sized bodies, rewinds after the threshold was crossed
        RealScaleMixin.extra_shard(self, tier, seed, shard, nshards, stats)
        if shard != 0:
            return
        # trusted-base validation: what a real botocore client does to an
        # upload body must be something the fake client can do
        from ..units import botocore_diff
        ok, bad = botocore_diff.validate()
        stats.extra = {'real_botocore_traces_accepted': ok}
        if bad:
            raise HarnessError(
                'the fake body protocol does not cover what the installed '
                f'botocore does: {bad}')

    def coverage_extra(self, tier, results):
        n = 0
        for r in results:
            n += (r.get('extra') or {}).get(
                'real_botocore_traces_accepted', 0)
        return {'real_botocore_traces_accepted_by_fake_protocol': n}

    def classify(self, R):
        cls = base_classes(R)
        neg = any(k == 'cb.progress' and info['n'] < 0
                  for (_, _, k, info) in R.trace.events)
        multi = any(oracles.mode_of(R, r) in ('multipart', 'ranged')
                    for r in R.transfers)
        if neg:
            cls.append('negative-progress')
        return cls, bool(neg or multi)


class C10(E2ECheck):
    id = 'C10'
    oracle = staticmethod(oracles.oracle_c10)
    quick_examples = 24000
    thorough_examples = 300000
    profile = {
        'ntransfers': (2, 6), 'limits': 'ones', 'execs': ['thr'],
        'subs': {'max': 1, 'size': True}, 'max_thr': 16, 'max_chunk': 8,
        'ends': ['shutdown'], 'lines': True, 'large': True, 'latency': True,
    }
    rule = ('cases = 2-6 concurrent transfers of mixed types, limits biased '
            'to 1-2 (one case in eight: limits of 5-10 incl. the defaults, '
            '5-10 transfers), threaded executor, PCT/walk/preempt schedules; oracle '
            'at every step from begin/end events and the instrumented '
            'executors; non-trivial = some limit was reached (count = bound)')

    def classify(self, R):
        cls = base_classes(R)
        cfg = R.case['cfg']
        nt = False
        pk = getattr(R, 'c10_peak', (0, 0))
        large = cfg['max_request_concurrency'] >= 5
        if large:
            cls.append('large-settings')
            cls.append(f'large:peak-requests={min(pk[0], 10)}')
        if pk[0] >= cfg['max_request_concurrency']:
            nt = True
            cls.append('request-concurrency-reached')
            if large:
                cls.append('large:request-concurrency-reached')
        if pk[1] >= cfg['max_submission_concurrency']:
            nt = True
            cls.append('submission-concurrency-reached')
        if len(R.executors) >= 3:
            for k, key in enumerate(('max_request_queue_size',
                                     'max_submission_queue_size',
                                     'max_io_queue_size')):
                if R.executors[k].max_inflight >= cfg[key]:
                    nt = True
                    cls.append(key + '-reached')
        return cls, nt


class C11(E2ECheck):
    id = 'C11'
    oracle = staticmethod(oracles.oracle_c11)
    quick_examples = 24000
    thorough_examples = 300000
    profile = {
        'latency': True,
        'types': ['upload', 'download'], 'srcs': ['seek', 'nonseek'],
        'dsts': ['nonseek', 'nonseek', 'special', 'path'],
        'ntransfers': (1, 4), 'limits': 'ones', 'execs': ['thr'],
        'subs': {'max': 1, 'size': True}, 'max_thr': 10, 'max_chunk': 6,
        'stream_scripts': True, 'ends': ['shutdown'],
        # failing and cancelled transfers too: the bounds hold at any time,
        # also while a failed transfer is still winding down
        'fault_sites': ['s3.upload_part', 's3.upload_part', 's3.get_object',
                        'src.read', 's3.complete_multipart_upload'],
        'max_faults': 1, 'cancels': 1,
    }
    rule = ('cases = stream uploads (seekable / non-seekable) and '
            'non-seekable ranged downloads sharing a manager, in-memory '
            'limits 1-3, 0-1 planted fault, 0-1 cancel, PCT schedules; oracle at every step: in-memory '
            'part tasks queued or running <= U (whatever the outcome), bytes read '
            'from user streams awaiting a finished part <= (U+S)*max(chunk,'
            'threshold), download window <= D per download and in sum, '
            'pending writes <= max_io_queue_size x io_chunksize; '
            'non-trivial = a bound was reached within one buffer/part')

    def classify(self, R):
        cls = base_classes(R)
        return cls, bool(getattr(R, 'c11_reached', False))


class C18(E2ECheck):
    id = 'C18'
    oracle = staticmethod(oracles.oracle_c18)
    quick_examples = 20000
    thorough_examples = 250000
    profile = {
        'serial_kbi': True,
        'rejects': True,
        'latency': True,
        'ntransfers': (2, 4), 'subs': {'max': 1, 'size': True},
        'body_scripts': True, 'stream_scripts': True,
        'stream_hard_faults': True,
        'fault_sites': ALL_FAULT_SITES, 'max_faults': 2, 'cancels': 2,
        'fresh': True, 'shared_extra': True, 'lines': True,
        'rccs': ['when_required', 'when_supported'],
        'ends': ['shutdown', 'shutdown', 'with', 'shutdown_cancel',
                 'with_exc'],
    }
    rule = ('cases = 2-4 concurrent transfers of different types on one '
            'manager, a drawn subset failing (fault plan) or cancelled, then '
            'a fresh transfer and/or shutdown / with-exit, x schedule; '
            'oracle = per-transfer isolation (untouched transfers succeed '
            'with exact bytes), nothing happens after shutdown returns, '
            'every semaphore back at capacity; non-trivial = >=1 transfer '
            'failed or was cancelled while another succeeded')

    def classify(self, R):
        cls = base_classes(R)
        bad = [r for r in R.transfers if r['outcome']
               and not r['outcome'].get('ok')]
        good = [r for r in R.transfers if r['outcome']
                and r['outcome'].get('ok')]
        if getattr(R, 'fresh', None):
            cls.append('fresh')
        return cls, bool(bad and good)
