"""End-to-end checks (one Trace, one oracle per property)."""
import copy

from . import Check
from .shrink import e2e_candidates
from .. import gen, oracles
from ..detsched import HarnessError

TRUSTED = [
    'fake S3 service/client (vt/fakes3.py) stands for botocore+HTTP+S3; its '
    'upload body protocol was derived from botocore endpoint/awsrequest/'
    'httpchecksum sources',
    'schedules are explored at the granularity of synchronisation, I/O and '
    'callback events under a sequentially consistent one-thread-at-a-time '
    'execution (vt/detsched.py)',
    'in-memory file system behind the injectable OSUtils (vt/fakefs.py)',
    'upload/copy part sizes use the real ChunksizeAdjuster class with scaled '
    'limits (DESIGN 2.5)',
]


class E2ECheck(Check):
    profile = {}
    oracle = None
    assumptions = TRUSTED

    def strategy(self, tier):
        return gen.e2e_cases(self.profile)

    def run(self, case):
        from ..e2e import run_case
        R = run_case(case)
        if R.harness_error is not None:
            raise HarnessError(str(R.harness_error))
        return R

    def classify(self, R):
        return ['-'], False

    def execute(self, case):
        R = self.run(case)
        out = {'violations': [], 'cls': [], 'nontrivial': False}
        if R.sched.budget_exceeded:
            # livelock rule: exceeded twice, second time with 10x budget
            c2 = dict(case, max_steps=10 * case.get('max_steps', 60000))
            R2 = self.run(c2)
            if R2.sched.budget_exceeded:
                out['violations'].append(
                    ('livelock', 'step budget exceeded twice (10x on the '
                                 'second run)'))
            else:
                out['inconclusive'] = True
                R = R2
        if not R.sched.budget_exceeded:
            out['violations'] += type(self).oracle(R)
        cls, nt = self.classify(R)
        out['cls'] = cls
        out['nontrivial'] = nt
        return out

    def shrink_candidates(self, case):
        return e2e_candidates(case)


def base_classes(R):
    c = R.case
    cls = []
    cls.append('exec=' + c.get('exec', 'thr'))
    cls.append('sched=' + (c.get('sched') or {}).get('mode', 'walk'))
    for r in R.transfers:
        t = r['spec']
        kind = t['type'] + ':' + (t.get('src') or t.get('dst') or '-')
        o = r['outcome']
        res = 'none' if o is None else ('ok' if o.get('ok') else
                                        type(o.get('exc')).__name__)
        cls.append(f'{kind}:{res}')
    return cls


class C04(E2ECheck):
    id = 'C04'
    oracle = staticmethod(oracles.oracle_c04)
    quick_examples = 24000
    thorough_examples = 600000
    profile = {
        'limits': 'ones', 'ntransfers': (1, 4),
        'subs': {'max': 2, 'reenter': True, 'raise_done': True,
                 'size': True},
        'body_scripts': True, 'stream_scripts': True,
        'stream_hard_faults': True,
        'fault_sites': ['s3.' + o for o in gen.S3_OPS] + [
            'src.read', 'fs.open', 'fs.write', 'fs.close', 'fs.rename',
            'fs.read', 'dst.write', 'cb.on_queued', 'cb.on_progress'],
        'max_faults': 2, 'cancels': 2, 'kbi': True,
        'ends': ['shutdown', 'shutdown', 'shutdown_cancel', 'with',
                 'with_exc', 'with_kbi'],
    }
    rule = ('cases = TransferManager programs (1-4 transfers of mixed type, '
            'limits biased to 1, faults, cancels, Ctrl-C, re-entrant '
            'subscribers) x generated schedule (random walk / PCT / bounded '
            'preemption) run under the deterministic scheduler; '
            'non-trivial = >=2 threads blocked simultaneously at some step, '
            'or a fault/cancel was delivered; distinct = hash of the case')

    def classify(self, R):
        cls = base_classes(R)
        nt = (R.sched.max_blocked >= 2 or bool(R.trace.delivered)
              or any('step' in c for c in R.case.get('cancels') or []))
        cls.append(f'max_blocked={min(R.sched.max_blocked, 4)}')
        if R.trace.delivered:
            cls.append('fault-delivered')
        return cls, nt
