"""In-memory file system behind an injectable OSUtils, and user streams.

Every open/read/write/seek/close/rename/remove is a scheduling point, is
logged with step and thread, and can fail per the fault plan (before-effect
only for the file system, see DESIGN 3.2).  The file-system state only changes
inside these operations, so an invariant checked after each mutation holds at
every scheduling point (= every potential crash point) of the run.
"""
import io


class MemFS:
    def __init__(self, sched, trace, faults):
        self.sched = sched
        self.trace = trace
        self.faults = faults
        self.files = {}          # path -> bytearray
        self.special = set()     # paths that behave like FIFOs
        self.watch = []          # callables(fs, what, path) after mutations
        self.ntemp = 0
        self.open_handles = 0
        self.mutations = 0
        self.wbuf = 0            # write-buffer size of handles (0 = none)

    def mutated(self, what, path):
        self.mutations += 1
        for w in self.watch:
            w(self, what, path)

    def listing(self):
        return sorted(self.files)


class MemFile:
    """An open handle.  It refers to the file's content object (the "inode"),
    not to the path: after a rename, writes through the handle land in the
    renamed file; after an unlink they go nowhere visible.  With fs.wbuf > 0
    the handle buffers writes like io.BufferedWriter does: data reaches the
    file (= becomes visible in the directory, survives a crash) when the
    buffer fills, on seek(), flush() and close()."""

    def __init__(self, fs, path, mode, owner=None):
        self.fs = fs
        self.name = path
        self.mode = mode
        self.pos = 0
        self.closed = False
        self.writes = []
        self._pending = []       # buffered (offset, bytes)
        self._npending = 0
        fs.open_handles += 1
        if 'w' in mode:
            if path in fs.special:
                # a FIFO: nothing is truncated, writes are a stream
                fs.files.setdefault(path, bytearray())
                self.fifo = True
            else:
                self.fifo = False
                fs.files[path] = bytearray()
                fs.mutated('open-w', path)
        else:
            self.fifo = False
            if path not in fs.files:
                fs.open_handles -= 1
                raise FileNotFoundError(2, 'No such file', path)
        self.buf = fs.files[path]

    def _path_now(self):
        """the path under which this handle's content is visible now"""
        fs = self.fs
        if fs.files.get(self.name) is self.buf:
            return self.name
        for p, b in fs.files.items():
            if b is self.buf:
                return p
        return None

    def _apply(self, off, data):
        buf = self.buf
        if self.fifo:
            buf += data
        else:
            if off > len(buf):
                buf += b'\0' * (off - len(buf))
            buf[off:off + len(data)] = data
        p = self._path_now()
        if p is not None:
            self.fs.mutated('write', p)

    def _flush(self):
        pend, self._pending, self._npending = self._pending, [], 0
        for off, data in pend:
            self._apply(off, data)

    def _pt(self, what):
        fs = self.fs
        fs.sched.point(None, f'fs.{what}')
        exc = fs.faults.visit(f'fs.{what}', self.name)
        if exc is not None:
            raise exc

    def read(self, n=-1):
        self._pt('read')
        if self.closed:
            raise ValueError('I/O operation on closed file.')
        buf = self.buf
        if n is None or n < 0:
            n = len(buf) - self.pos
        out = bytes(buf[self.pos:self.pos + n])
        self.pos += len(out)
        self.fs.trace.ev('fs.read', path=self.name, n=len(out))
        return out

    def write(self, data):
        self._pt('write')
        if self.closed:
            raise ValueError('I/O operation on closed file.')
        fs = self.fs
        data = bytes(data)
        if self.fifo:
            off = len(self.buf) + self._npending
        else:
            off = self.pos
            self.pos = off + len(data)
        self.writes.append((off, len(data)))
        fs.trace.ev('fs.write', path=self.name, off=off, n=len(data),
                    fifo=self.fifo)
        wbuf = getattr(fs, 'wbuf', 0)
        if wbuf and len(data) < wbuf:
            self._pending.append((off, data))
            self._npending += len(data)
            if self._npending >= wbuf:
                self._flush()
        else:
            self._flush()
            self._apply(off, data)
        return len(data)

    def seek(self, where, whence=0):
        if self.fifo:
            raise io.UnsupportedOperation('seek on fifo')
        self._pt('seek')
        self._flush()
        buf = self.buf
        if whence == 0:
            self.pos = where
        elif whence == 1:
            self.pos += where
        else:
            self.pos = len(buf) + where
        if self.pos < 0:
            raise ValueError('negative seek')
        return self.pos

    def tell(self):
        return self.pos

    def seekable(self):
        return not self.fifo

    def readable(self):
        return 'r' in self.mode

    def fileno(self):
        raise io.UnsupportedOperation('fileno')

    def truncate(self, size=None):
        self._flush()
        buf = self.buf
        size = self.pos if size is None else size
        if size < len(buf):
            del buf[size:]
        else:
            buf += b'\0' * (size - len(buf))
        p = self._path_now()
        if p is not None:
            self.fs.mutated('truncate', p)

    def close(self):
        if self.closed:
            return
        # a failing close() loses what was still buffered (before-effect)
        self._pt('close')
        self._flush()
        self.closed = True
        self.fs.open_handles -= 1
        self.fs.trace.ev('fs.close', path=self.name)

    def flush(self):
        self._flush()

    def __enter__(self):
        return self

    def __exit__(self, *a):
        self.close()


def make_osutils(fs, base_cls):
    """A subclass of the given OSUtils class (s3transfer.utils.OSUtils or the
    legacy one) over the in-memory file system."""

    class FakeOSUtils(base_cls):
        def get_file_size(self, filename):
            fs.sched.point(None, 'fs.stat')
            exc = fs.faults.visit('fs.stat', filename)
            if exc is not None:
                raise exc
            if filename not in fs.files:
                raise FileNotFoundError(2, 'No such file', filename)
            return len(fs.files[filename])

        def open(self, filename, mode):
            fs.sched.point(None, 'fs.open')
            exc = fs.faults.visit('fs.open', filename)
            if exc is not None:
                raise exc
            f = MemFile(fs, filename, mode)
            fs.trace.ev('fs.open', path=filename, mode=mode)
            return f

        def remove_file(self, filename):
            fs.sched.point(None, 'fs.remove')
            if filename in fs.files and filename not in fs.special:
                del fs.files[filename]
                fs.trace.ev('fs.remove', path=filename)
                fs.mutated('remove', filename)

        def rename_file(self, current_filename, new_filename):
            fs.sched.point(None, 'fs.rename')
            exc = fs.faults.visit('fs.rename', new_filename)
            if exc is not None:
                raise exc
            if current_filename not in fs.files:
                raise FileNotFoundError(2, 'No such file', current_filename)
            fs.files[new_filename] = fs.files.pop(current_filename)
            fs.trace.ev('fs.rename', src=current_filename, dst=new_filename)
            fs.mutated('rename', new_filename)

        def is_special_file(self, filename):
            return filename in fs.special

        def get_temp_filename(self, filename):
            # the library's own naming rule, with a deterministic "random"
            # extension
            fs.ntemp += 1
            real = getattr(base_cls, 'get_temp_filename', None)
            if real is None:
                return f'{filename}.{fs.ntemp:08X}'
            import s3transfer.utils as U
            saved = U.random_file_extension
            U.random_file_extension = \
                lambda num_digits=8: f'{fs.ntemp:0{num_digits}X}'
            try:
                return real(self, filename)
            finally:
                U.random_file_extension = saved

        def allocate(self, filename, size):
            fs.sched.point(None, 'fs.allocate')
            exc = fs.faults.visit('fs.allocate', filename)
            if exc is not None:
                # mirrors OSUtils.allocate: remove on OSError and re-raise
                fs.files.pop(filename, None)
                raise exc
            fs.files[filename] = bytearray(size)
            fs.trace.ev('fs.allocate', path=filename, size=size)
            fs.mutated('allocate', filename)

        def open_file_chunk_reader(self, filename, start_byte, size,
                                   callbacks):
            # the base implementation uses the builtin open(); route it
            # through the in-memory file system with the same semantics
            from s3transfer.utils import ReadFileChunk
            f = self.open(filename, 'rb')
            f.seek(start_byte)
            full = len(fs.files[filename])
            if isinstance(callbacks, (list, tuple)) or callbacks is None:
                return ReadFileChunk(f, size, full, callbacks,
                                     enable_callbacks=False)
            return callbacks  # legacy signature handled by make_legacy_osutils

    return FakeOSUtils()


class UserSource:
    """A user-supplied readable stream.  Full reads unless at EOF (DESIGN
    3.1).  seekable=False => no seek/tell at all."""

    def __init__(self, sched, trace, faults, data, start, tidx):
        self._s = sched
        self._t = trace
        self._f = faults
        self._data = data
        self._pos = start
        self._tidx = tidx
        self.nread = 0
        self.reads = []

    def read(self, n=-1):
        self._s.point(None, 'src.read')
        exc = self._f.visit('src.read', self._tidx)
        if exc is not None:
            raise exc
        if n is None or n < 0:
            n = len(self._data) - self._pos
        out = self._data[self._pos:self._pos + n]
        self.reads.append((self._pos, len(out)))
        self._pos += len(out)
        self.nread += len(out)
        self._t.ev('src.read', t=self._tidx, n=len(out), pos=self._pos)
        return out

    def readable(self):
        return True

    def close(self):
        # a duck-typed stream may return anything from close(); the library
        # must not let it decide whether an exception propagates (seed s102)
        return True


class SeekableSource(UserSource):
    def seek(self, where, whence=0):
        self._s.point(None, 'src.seek')
        if whence == 0:
            self._pos = where
        elif whence == 1:
            self._pos += where
        else:
            self._pos = len(self._data) + where
        self._t.ev('src.seek', t=self._tidx, pos=self._pos)
        return self._pos

    def tell(self):
        return self._pos

    def seekable(self):
        return True


class PlainSeekableSource:
    """A seekable file-like object that is not derived from io.IOBase: it has
    read/seek/tell but neither seekable() nor readable()."""

    def __init__(self, sched, trace, faults, data, start, tidx):
        self._inner = SeekableSource(sched, trace, faults, data, start, tidx)

    def read(self, n=-1):
        return self._inner.read(n)

    def seek(self, where, whence=0):
        return self._inner.seek(where, whence)

    def tell(self):
        return self._inner.tell()

    def close(self):
        return self._inner.close()

    @property
    def nread(self):
        return self._inner.nread


class NonSeekableSource(UserSource):
    def seekable(self):
        return False


class UserSink:
    """A user-supplied writable stream (download destination)."""

    def __init__(self, sched, trace, faults, tidx):
        self._s = sched
        self._t = trace
        self._f = faults
        self._tidx = tidx
        self.buf = bytearray()
        self.pos = 0
        self.writes = []   # (offset, len, step, tid)
        self.active = 0
        self.overlap = False

    def write(self, data):
        s = self._s
        self.active += 1
        if self.active > 1:
            self.overlap = True
        try:
            s.point(None, 'dst.write')
            exc = self._f.visit('dst.write', self._tidx)
            if exc is not None:
                raise exc
            off = self.pos
            if off > len(self.buf):
                self.buf += b'\0' * (off - len(self.buf))
            self.buf[off:off + len(data)] = data
            self.pos = off + len(data)
            self.writes.append((off, len(data), s.step, s.cur.tid))
            self._t.ev('dst.write', t=self._tidx, off=off, n=len(data))
            return len(data)
        finally:
            self.active -= 1

    def writable(self):
        return True


class SeekableSink(UserSink):
    def seek(self, where, whence=0):
        self._s.point(None, 'dst.seek')
        if whence == 0:
            self.pos = where
        elif whence == 1:
            self.pos += where
        else:
            self.pos = len(self.buf) + where
        return self.pos

    def tell(self):
        return self.pos

    def seekable(self):
        return True


class NonSeekableSink(UserSink):
    def seekable(self):
        return False


class PipeLikeSink(NonSeekableSink):
    """Non-seekable, but with seek/tell attributes (what the buffered writer
    of a pipe looks like): seekable() is False, seek()/tell() raise."""

    def seek(self, where, whence=0):
        self._t.ev('dst.seek-on-pipe', t=self._tidx)
        raise io.UnsupportedOperation('underlying stream is not seekable')

    def tell(self):
        raise io.UnsupportedOperation('underlying stream is not seekable')
