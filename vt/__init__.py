"""Verification toolkit for boto/s3transfer: property-based testing and fuzzing.

See /verif/DESIGN.md.  Everything here is stdlib + hypothesis; the code under
test is imported from VERIF_REPO (default /repo) on every run.
"""
import os
import sys

REPO = os.environ.get('VERIF_REPO', '/repo')
VERIF = os.path.dirname(os.path.dirname(os.path.abspath(__file__)))


def setup_paths():
    """Make the working tree of the repository the `s3transfer` that gets
    imported, and make vendored deps (if any) importable."""
    deps = os.path.join(VERIF, '.deps')
    if os.path.isdir(deps) and deps not in sys.path:
        sys.path.append(deps)
    if REPO not in sys.path:
        sys.path.insert(0, REPO)
    # the hook guard (no hooks are needed, see MANIFEST.hooks); set for form
    os.environ.setdefault('S3TRANSFER_VERIF', '1')


setup_paths()
