"""Hypothesis strategies that build end-to-end Cases (plain JSON documents).

Strategies only *construct* cases (no filter/assume for structure); a check
passes a profile that weights the space towards its property.
"""
from hypothesis import strategies as st

S3_OPS = ['head_object', 'get_object', 'put_object', 'copy_object',
          'delete_object', 'create_multipart_upload', 'upload_part',
          'upload_part_copy', 'complete_multipart_upload',
          'abort_multipart_upload']


def weighted(*pairs):
    """one_of with weights ((weight, strategy), ...).  Hypothesis flattens
    and de-duplicates one_of(a, a, b), so repetition does not weight."""
    total = sum(w for w, _ in pairs)
    table = []
    for w, strat in pairs:
        table += [strat] * w

    return st.integers(0, total - 1).flatmap(lambda k: table[k])


def schedules(max_len=120):
    walk = st.builds(
        lambda c: {'mode': 'walk', 'choices': c},
        st.lists(st.integers(0, 3), max_size=max_len))
    pct = st.builds(
        lambda p, c: {'mode': 'pct', 'prios': p, 'changes': sorted(set(c))},
        st.lists(st.integers(0, 30), min_size=1, max_size=10),
        st.lists(st.integers(1, 400), max_size=4))
    pre = st.builds(
        lambda a: {'mode': 'preempt', 'at': [list(x) for x in a]},
        st.lists(st.tuples(st.integers(0, 300), st.integers(1, 3)),
                 max_size=3))
    return st.one_of(walk, pct, pre)


# kinds of scheduling points a canceller can wait for: it runs right before
# the effect of the nth one (the io thread is then inside its task, past the
# task's own done() check)
CANCEL_POINTS = ['fs.write', 'fs.write', 'dst.write', 'dst.write',
                 'fs.rename', 'fs.close', 'fs.open', 'fs.remove', 'fs.seek',
                 'dst.seek', 'body.read', 'src.read', 'executor.submit',
                 's3.upload_part.end', 's3.create_multipart_upload.end',
                 's3.complete_multipart_upload.begin',
                 's3.abort_multipart_upload.begin', 's3.get_object.end',
                 's3.head_object.end', 'worker.next']


def dense_schedules():
    """Schedules for dense-line cases (many more real choices per run):
    PCT with later change points, or up to six preemptions placed anywhere
    among the first few thousand choices."""
    pct = st.builds(
        lambda p, c: {'mode': 'pct', 'prios': p, 'changes': sorted(set(c))},
        st.lists(st.integers(0, 30), min_size=1, max_size=10),
        st.lists(st.integers(1, 3000), max_size=6))
    pre = st.builds(
        lambda a: {'mode': 'preempt', 'at': [list(x) for x in a]},
        st.lists(st.tuples(st.one_of(st.integers(0, 400),
                                     st.integers(0, 3000)),
                           st.integers(1, 3)),
                 min_size=1, max_size=6))
    return st.one_of(pct, pre)


def configs(profile):
    small = st.integers(1, 4)
    one_biased = st.sampled_from([1, 1, 1, 2, 2, 3, 4])
    lim = one_biased if profile.get('limits') == 'ones' else small
    q = st.sampled_from([1, 1, 2, 2, 3, 4, 1000]) \
        if profile.get('limits') == 'ones' else \
        st.sampled_from([1, 2, 3, 4, 1000, 1000])
    if profile.get('limits') == 'large':
        lim = st.sampled_from([5, 6, 8, 10, 10])
        q = st.sampled_from([5, 6, 10, 1000, 1000])
    return st.fixed_dictionaries({
        'multipart_threshold': st.integers(1, profile.get('max_thr', 48)),
        'multipart_chunksize': st.integers(1, profile.get('max_chunk', 24)),
        'io_chunksize': st.integers(1, 12),
        'max_request_concurrency': lim,
        'max_submission_concurrency': st.sampled_from([3, 5, 5, 6]) if
        profile.get('limits') == 'large' else st.integers(1, 3) if
        profile.get('limits') != 'ones' else st.sampled_from([1, 1, 2, 3]),
        'max_request_queue_size': q,
        'max_submission_queue_size': q,
        'max_io_queue_size': q,
        'num_download_attempts': st.integers(1, 4),
        'max_in_memory_upload_chunks': st.integers(1, 3),
        'max_in_memory_download_chunks': st.integers(1, 3),
    })


def adjusters():
    return st.builds(
        lambda lo, span, mp: [lo, lo + span, mp],
        st.integers(1, 8), st.integers(0, 40),
        # the scaled stand-in for the 10 000 part limit; the wider range lets
        # uploads and copies of 10-40 parts through (two-digit part numbers)
        st.one_of(st.integers(3, 10), st.integers(3, 40)))


def sizes(cfg, adj, bias=None):
    if bias == 'multi':
        t = cfg['multipart_threshold']
        c = max(cfg['multipart_chunksize'], adj[0] if adj else 1)
        return st.one_of(
            st.integers(t, t + 5 * c + 2),
            st.integers(t, t + 5 * c + 2),
            st.sampled_from([t, t + 1, t + c, t + 2 * c + 1,
                             max(t, 2 * c), max(t, 3 * c) + 1]),
            sizes(cfg, adj))
    t = cfg['multipart_threshold']
    c = max(cfg['multipart_chunksize'], adj[0] if adj else 1)
    cand = {0, 1, t - 1, t, t + 1}
    for k in range(1, 6):
        cand |= {k * c - 1, k * c, k * c + 1}
    # 10-12 parts: two-digit part numbers (ordering, formatting)
    cand |= {9 * c + 1, 10 * c, 11 * c + 1, 12 * c - 1}
    cand = sorted(x for x in cand if 0 <= x <= 400)
    return st.one_of(st.sampled_from(cand), st.integers(0, 6 * c + 3),
                     st.integers(0, 40))


def reenter_ops(which):
    ops = ['done', 'meta', 'cancel', 'set_exception']
    if which == 'done':
        ops = ops + ['result']
    return st.lists(st.sampled_from(ops), max_size=2)


def subscribers(profile):
    sp = profile.get('subs') or {}
    if not sp:
        return st.just([])
    fields = {}
    fields['size'] = st.booleans() if sp.get('size') else st.just(False)
    fields['raise_done'] = (st.sampled_from([False, False, True])
                            if sp.get('raise_done') else st.just(False))
    if sp.get('reenter'):
        fields['reenter'] = st.one_of(
            st.just({}),
            st.fixed_dictionaries({
                'queued': reenter_ops('queued'),
                'progress': reenter_ops('progress'),
                'done': reenter_ops('done')}))
    else:
        fields['reenter'] = st.just({})
    return st.lists(st.fixed_dictionaries(fields),
                    min_size=sp.get('min', 0), max_size=sp.get('max', 2))


def transfers(profile, cfg, adj):
    types = profile.get('types', ['upload', 'download', 'copy', 'delete'])
    subs = subscribers(profile)
    sz = sizes(cfg, adj, profile.get('size_bias'))
    srcs = profile.get('srcs', ['path', 'seek', 'nonseek'])
    dsts = profile.get('dsts', ['path', 'seek', 'nonseek', 'special'])
    alts = []
    extra = st.just({})
    if profile.get('checksum'):
        extra = st.sampled_from([{}, {}, {'ChecksumAlgorithm': 'CRC32'},
                                 {'ChecksumAlgorithm': 'SHA256'}])
    if 'upload' in types:
        alts.append(st.fixed_dictionaries({
            'type': st.just('upload'), 'src': st.sampled_from(srcs),
            'size': sz, 'start': st.sampled_from([0, 0, 1, 5, 17]),
            'plain': st.sampled_from([False, False, True]),
            'extra': extra, 'subs': subs}))
    if 'download' in types:
        alts.append(st.fixed_dictionaries({
            'type': st.just('download'), 'dst': st.sampled_from(dsts),
            'size': sz,
            'preexist': st.sampled_from([None, None, 0, 7, 60]),
            # a non-seekable stream that nevertheless HAS seek/tell
            # attributes (like a pipe's buffered writer): seekable() is False
            'seek_attr': st.sampled_from([False, False, True]),
            # a destination whose base name is exactly 255 characters long
            'longname': (st.sampled_from([False, False, False, True])
                         if profile.get('long_names') else st.just(False)),
            'subs': subs}))
    if 'copy' in types:
        alts.append(st.fixed_dictionaries({
            'type': st.just('copy'), 'size': sz, 'version': st.booleans(),
            'src_client': st.booleans(), 'extra': extra, 'subs': subs}))
    if 'delete' in types:
        alts.append(st.fixed_dictionaries({
            'type': st.just('delete'), 'size': st.integers(0, 5),
            'subs': subs}))
    lo, hi = profile.get('ntransfers', (1, 3))
    return st.lists(st.one_of(*alts), min_size=lo, max_size=hi)


def body_scripts(profile):
    if not profile.get('body_scripts'):
        return st.just([])
    one = st.fixed_dictionaries({
        'preflight': st.booleans(),
        'sign': st.booleans(),
        'blocks': st.lists(st.integers(1, 16), min_size=0, max_size=3),
        'rewinds': st.lists(st.integers(0, 40), max_size=3),
        'chunked': st.sampled_from([0, 0, 0, 1, 3, 8, 1024]),
    })
    return st.lists(one, max_size=4)


def stream_scripts(profile):
    if not profile.get('stream_scripts'):
        return st.just([])
    kinds = ['retryable:0', 'retryable:1', 'retryable:2', 'retryable:3',
             'retryable:4']
    if profile.get('stream_hard_faults'):
        kinds = kinds + ['injected', 'valueerror']
    one = st.fixed_dictionaries({
        'short': st.lists(st.integers(0, 8), max_size=4),
        'fault_at': st.one_of(st.none(), st.none(), st.integers(0, 40)),
        'fault': st.sampled_from(kinds),
    })
    return st.lists(one, max_size=5)


def applicable_sites(t, cfg):
    """Fault sites a transfer can actually visit (so plans are built by
    construction, not by rejection)."""
    out = []
    size = t.get('size', 0)
    multi = size >= cfg['multipart_threshold']
    subs = t.get('subs') or []
    sized = any(s.get('size') for s in subs)
    if t['type'] == 'upload':
        if t['src'] == 'path':
            out += ['fs.open', 'fs.read']
        else:
            out += ['src.read']
        if multi:
            out += ['s3.create_multipart_upload', 's3.upload_part',
                    's3.upload_part', 's3.complete_multipart_upload',
                    's3.abort_multipart_upload']
        else:
            out += ['s3.put_object']
    elif t['type'] == 'download':
        if not sized:
            out += ['s3.head_object']
        out += ['s3.get_object', 'stream.read', 'stream.read']
        if t['dst'] == 'path':
            out += ['fs.open', 'fs.write', 'fs.close', 'fs.rename']
        elif t['dst'] == 'special':
            out += ['fs.open', 'fs.write', 'fs.close']
        else:
            out += ['dst.write']
    elif t['type'] == 'copy':
        if not sized:
            out += ['s3.head_object']
        if multi:
            out += ['s3.create_multipart_upload', 's3.upload_part_copy',
                    's3.upload_part_copy', 's3.complete_multipart_upload',
                    's3.abort_multipart_upload']
        else:
            out += ['s3.copy_object']
    else:
        out += ['s3.delete_object']
    if subs:
        out += ['cb.on_queued', 'cb.on_progress']
    return out


MANY = ('s3.upload_part', 's3.upload_part_copy', 'stream.read', 'fs.write',
        'src.read', 'fs.read', 'dst.write', 'cb.on_progress',
        's3.get_object')


def fault_plans(profile, ts=None, cfg=None):
    allowed = profile.get('fault_sites')
    if not allowed:
        return st.just([])
    sites = []
    for t in ts or []:
        sites += [s for s in applicable_sites(t, cfg) if s in allowed]
    if not sites:
        sites = list(allowed)

    def mk(site, nth, when, exc):
        if site not in MANY:
            nth = nth % 2 if nth < 4 else 0
        d = {'site': site, 'nth': nth, 'exc': exc}
        if site.startswith('s3.'):
            d['when'] = when
        else:
            d['when'] = 'before'
        if exc.startswith('retryable') and site not in (
                'stream.read', 's3.get_object'):
            d['exc'] = 'injected'
        if exc == 'brokenpipe' and site not in (
                'fs.write', 'dst.write', 'fs.open', 'fs.close', 'fs.rename'):
            d['exc'] = 'oserror'
        return d
    excs = profile.get('fault_excs', ['injected', 'injected', 'oserror'])
    one = st.builds(mk, st.sampled_from(sites),
                    st.sampled_from([0, 0, 0, 1, 1, 2, 3, 4, 5]),
                    st.sampled_from(['before', 'before', 'after']),
                    st.sampled_from(excs))
    return st.lists(one, min_size=profile.get('min_faults', 0),
                    max_size=profile.get('max_faults', 2))


def ends(profile):
    hows = profile.get('ends', ['shutdown'])
    msg = st.sampled_from(['', 'm', 'stop now'])
    at = st.one_of(st.none(), st.integers(0, 60), st.integers(0, 150),
                   st.integers(0, 300))

    def mk(how, msg, at, wait):
        d = {'how': how}
        if how in ('shutdown_cancel', 'with_exc'):
            d['msg'] = msg
        if how in ('shutdown_cancel', 'with_exc', 'with_kbi'):
            d['at'] = at if at is not None else 0
            d['wait_results'] = False
        else:
            d['wait_results'] = wait
        return d
    return st.builds(mk, st.sampled_from(hows), msg, at, st.booleans())


@st.composite
def e2e_cases(draw, profile):
    if profile.get('large') and draw(st.integers(0, 7)) == 0:
        # larger settings: limits of 5-10 (10 = the library default), queue
        # sizes of 5-10 or the default 1000, 5-10 transfers in flight
        profile = dict(profile, limits='large', ntransfers=(5, 10),
                       size_bias='multi', max_thr=6, max_chunk=3)
    cfg = draw(configs(profile))
    adj = draw(adjusters())
    ts = draw(transfers(profile, cfg, adj))
    case = {
        'cfg': cfg, 'adj': adj,
        'exec': draw(st.sampled_from(profile.get('execs', ['thr', 'thr',
                                                           'thr', 'serial']))),
        'rcc': draw(st.sampled_from(profile.get(
            'rccs', ['when_required']))),
        'transfers': ts,
        'scripts': {'body': draw(body_scripts(profile)),
                    'stream': draw(stream_scripts(profile))},
        'faults': draw(fault_plans(profile, ts, cfg)),
        'end': draw(ends(profile)),
        'sched': draw(schedules()),
        'hash_salt': draw(st.integers(0, 5)),
        # write-buffer size of file handles (0 = unbuffered): data reaches
        # the directory when the buffer fills, on seek, flush and close
        'fs_buffer': draw(st.sampled_from([0, 0, 3, 64])),
    }
    if profile.get('latency') and draw(st.booleans()):
        # per-request network latency in virtual time (cycled by call id)
        case['scripts']['latency'] = draw(st.lists(
            st.sampled_from([0, 0, 1, 2, 5]), min_size=1, max_size=6))
    lines_mode = draw(st.integers(0, 3)) if profile.get('lines') else 3
    if lines_mode == 0:
        # line-granularity preemption: the n-th executed source line of
        # s3transfer/*.py becomes a (forced) scheduling point
        case['lines'] = draw(st.lists(st.integers(0, 2500), min_size=1,
                                      max_size=3))
    elif lines_mode == 1:
        # dense mode: every line inside the lock-owning classes is an
        # ordinary scheduling point; the schedule gets more choices to spend
        case['dense'] = True
        case['sched'] = draw(dense_schedules())
    if profile.get('shared_extra') and draw(st.booleans()):
        case['shared_extra'] = True
    if profile.get('rejects') and draw(st.integers(0, 3)) == 0:
        # calls the manager rejects at submit time (ValueError), made after
        # the real transfers were submitted; the caller carries on
        case['rejects'] = draw(st.lists(st.fixed_dictionaries({
            'type': st.sampled_from(['upload', 'download', 'copy', 'delete']),
            'how': st.sampled_from(['arn', 'badarg'])}),
            min_size=1, max_size=2))
    if profile.get('agg'):
        case['agg'] = draw(st.sampled_from([None, 1, 4, 16]))
    if profile.get('cancels'):
        n = len(ts)
        steps = st.one_of(st.integers(0, 60), st.integers(0, 150),
                          st.integers(0, 300))
        case['cancels'] = draw(st.lists(
            st.one_of(
                st.fixed_dictionaries({'t': st.integers(0, n - 1),
                                       'at': steps}),
                # event-based trigger: after the k-th begin/end event of the
                # transfer's own S3 calls (lands mid-transfer by construction)
                st.fixed_dictionaries({'t': st.integers(0, n - 1),
                                       'at': st.just(0),
                                       'calls': st.integers(1, 9)}),
                *([st.fixed_dictionaries({
                    't': st.integers(0, n - 1), 'at': st.just(0),
                    'point': st.sampled_from(CANCEL_POINTS),
                    'nth': st.integers(0, 6)})]
                  if profile.get('cancel_points') else [])),
            min_size=profile.get('min_cancels', 0),
            max_size=profile['cancels']))
    if profile.get('kbi'):
        case['kbi'] = draw(st.one_of(
            st.none(), st.fixed_dictionaries({'at': st.integers(0, 250)})))
        if case['kbi'] is None:
            del case['kbi']
    if profile.get('fresh'):
        fr = draw(st.one_of(st.none(), transfers(
            dict(profile, ntransfers=(1, 1)), cfg, adj)))
        if fr:
            case['fresh'] = fr[0]
    if profile.get('serial_kbi') and case['exec'] == 'serial':
        # serial executor: every request, read and write runs on the user's
        # thread, so a Ctrl-C can arrive inside one of them - in half of the
        # serial cases the first eligible planted fault becomes an interrupt
        el = [f for f in case['faults']
              if not f['site'].startswith('cb.')
              and f['site'] != 's3.abort_multipart_upload']
        if el and draw(st.booleans()):
            el[0]['exc'] = 'kbi'
    return case


# ---------------------------------------------------------------- C19
@st.composite
def pp_cases(draw):
    thr = draw(st.integers(1, 24))
    chunk = draw(st.integers(1, 12))
    workers = draw(st.integers(1, 3))
    nd = draw(st.integers(1, 2))
    downloads = []
    for _ in range(nd):
        njobs = draw(st.integers(1, 4))
        size = draw(st.one_of(
            st.integers(0, thr + 1),
            st.integers(max(thr, (njobs - 1) * chunk + 1),
                        max(thr, njobs * chunk)),
            st.sampled_from([0, 1, thr - 1, thr, thr + 1, 2 * chunk,
                             3 * chunk + 1])))
        downloads.append({
            'size': max(0, size),
            'preexist': draw(st.sampled_from([None, None, 0, 9])),
            'expected_size': draw(st.booleans()),
            'extra': {}})
    sites = ['s3.head_object', 's3.get_object', 's3.get_object',
             'stream.read', 'stream.read', 'fs.allocate', 'fs.rename',
             'fs.open', 'fs.write']

    def mk(site, nth, exc, when):
        d = {'site': site, 'nth': nth, 'exc': exc, 'when': 'before'}
        if site.startswith('s3.'):
            d['when'] = when
        if exc.startswith('retryable') and site not in (
                'stream.read', 's3.get_object'):
            d['exc'] = 'injected'
        if site not in MANY:
            d['nth'] = nth % 2
        return d
    faults = draw(st.lists(
        st.builds(mk, st.sampled_from(sites),
                  st.sampled_from([0, 0, 1, 2, 3, 5]),
                  st.sampled_from(['injected', 'oserror', 'retryable:1',
                                   'retryable:3', 'valueerror']),
                  st.sampled_from(['before', 'before', 'after'])),
        max_size=2))
    kinds = ['retryable:0', 'retryable:1', 'retryable:2', 'retryable:3',
             'retryable:4', 'injected']
    stream = draw(st.lists(st.fixed_dictionaries({
        'short': st.lists(st.integers(0, 6), max_size=3),
        'fault_at': st.one_of(st.none(), st.none(), st.integers(0, 20)),
        'fault': st.sampled_from(kinds)}), max_size=7))
    how = draw(st.sampled_from(['shutdown', 'shutdown', 'with', 'with_kbi',
                                'with_exc']))
    end = {'how': how, 'wait_results': draw(st.booleans())}
    if how in ('with_kbi', 'with_exc'):
        end['at'] = draw(st.integers(0, 200))
        end['wait_results'] = False
    case = {
        'cfg': {'multipart_threshold': thr, 'multipart_chunksize': chunk,
                'workers': workers},
        'downloads': downloads, 'faults': faults,
        'scripts': {'stream': stream},
        'cancels': draw(st.lists(st.fixed_dictionaries({
            't': st.integers(0, nd - 1), 'at': st.integers(0, 200)}),
            max_size=2)),
        'end': end, 'sched': draw(schedules()),
    }
    k = draw(st.one_of(st.none(), st.none(), st.integers(0, 200)))
    if k is not None:
        case['kbi'] = {'at': k}
    ioc = draw(st.sampled_from([None, None, 1, 2, 3, 5]))
    if ioc is not None:
        case['io_chunk'] = ioc
    case['fs_buffer'] = draw(st.sampled_from([0, 0, 3, 64]))
    return case


# ---------------------------------------------------------------- C20
@st.composite
def crt_cases(draw):
    permits = draw(st.integers(1, 3))
    n = draw(st.integers(1, 6))
    transfers = []
    for _ in range(n):
        typ = draw(st.sampled_from(['upload', 'download', 'download',
                                    'delete']))
        t = {'type': typ, 'size': draw(st.integers(0, 12)),
             'subs': draw(st.integers(0, 2)),
             'fail': draw(st.sampled_from([None, None, None, 'serializer',
                                           'make_request', 'on_queued'])),
             'finish': draw(st.sampled_from(['ok', 'ok', 'error',
                                             'cancel'])),
             'raise_done': False}
        if typ != 'delete':
            t['target'] = draw(st.sampled_from(['path', 'stream']))
        if typ == 'download':
            t['preexist'] = draw(st.sampled_from([None, None, 4]))
        if t['fail'] == 'on_queued' and t['subs'] == 0:
            t['subs'] = 1
        transfers.append(t)
    how = draw(st.sampled_from(['shutdown', 'shutdown', 'shutdown_cancel',
                                'with', 'with_exc']))
    end = {'how': how}
    if how in ('shutdown_cancel', 'with_exc'):
        end['at'] = draw(st.integers(0, 150))
    faults = draw(st.lists(st.builds(
        lambda nth: {'site': 'fs.rename', 'nth': nth, 'exc': 'oserror',
                     'when': 'before'}, st.integers(0, 2)), max_size=1))
    return {'permits': permits, 'transfers': transfers,
            'order': draw(st.lists(st.integers(0, 5), max_size=8)),
            'nthreads': draw(st.integers(1, 2)), 'end': end,
            'faults': faults, 'sched': draw(schedules())}


# ---------------------------------------------------------------- legacy
LEGACY_READ = 16 * 1024     # MultipartDownloader reads 16 KiB at a time


@st.composite
def legacy_buffer_scale_cases(draw, ops=('upload', 'download')):
    """Legacy transfers whose parts are larger than the hard-coded 16 KiB /
    8 KiB read sizes of the legacy classes, with network reads that are
    capped at sizes around those constants."""
    op = draw(st.sampled_from(list(ops)))
    chunk = draw(st.one_of(st.integers(LEGACY_READ + 1, 70000),
                           st.sampled_from([2 * LEGACY_READ, 3 * LEGACY_READ,
                                            LEGACY_READ + 1, 40000])))
    nparts = draw(st.integers(1, 4))
    size = draw(st.one_of(
        st.integers(max(1, (nparts - 1) * chunk + 1), nparts * chunk),
        st.sampled_from([chunk, 2 * chunk, 2 * chunk + 1, 3 * chunk - 1])))
    thr = draw(st.sampled_from([1, size, size + 1]))
    caps = st.sampled_from([0, 2048, 4096, 5000, 8191, 8192, 8193, 10000,
                            12345, LEGACY_READ - 1, LEGACY_READ,
                            LEGACY_READ + 1, 30000])
    case = {'kind': 'legacy', 'op': op, 'size': size, 'threshold': thr,
            'chunk': chunk, 'conc': draw(st.integers(1, 3)),
            'attempts': draw(st.integers(1, 3)),
            'preexist': draw(st.sampled_from([None, None, 7])),
            'extra': {}, 'faults': [], 'scripts': {}, 'buffer_scale': True}
    if op == 'upload':
        case['scripts']['body'] = draw(st.lists(st.fixed_dictionaries({
            'preflight': st.booleans(), 'sign': st.booleans(),
            'blocks': st.lists(caps.filter(lambda k: k > 0), max_size=3),
            'rewinds': st.lists(st.integers(0, 70000), max_size=2),
            'chunked': st.just(0)}), max_size=3))
    else:
        case['scripts']['stream'] = draw(st.lists(st.fixed_dictionaries({
            'short': st.lists(caps, min_size=1, max_size=3),
            'fault_at': st.one_of(st.none(), st.none(),
                                  st.integers(0, 2 * chunk)),
            'fault': st.sampled_from(['retryable:0', 'retryable:1',
                                      'retryable:3', 'retryable:4'])}),
            max_size=4))
    return case


@st.composite
def legacy_cases(draw, ops=('upload', 'download'), with_faults=False):
    if not with_faults and draw(st.integers(0, 5)) == 0:
        return draw(legacy_buffer_scale_cases(ops))
    thr = draw(st.integers(1, 40))
    chunk = draw(st.integers(1, 16))
    op = draw(st.sampled_from(list(ops)))
    cand = sorted({0, 1, thr - 1, thr, thr + 1, chunk, 2 * chunk - 1,
                   2 * chunk, 2 * chunk + 1, 3 * chunk + 1} - {-1})
    size = draw(st.one_of(st.sampled_from(cand), st.integers(0, 5 * chunk + 2),
                          st.integers(thr, thr + 4 * chunk)))
    case = {'kind': 'legacy', 'op': op, 'size': size, 'threshold': thr,
            'chunk': chunk, 'conc': draw(st.integers(1, 3)),
            'attempts': draw(st.integers(1, 3)),
            'preexist': draw(st.sampled_from([None, None, 0, 7])),
            'extra': {}, 'faults': [], 'scripts': {}}
    if op == 'upload':
        case['scripts']['body'] = draw(st.lists(st.fixed_dictionaries({
            'preflight': st.booleans(), 'sign': st.booleans(),
            'blocks': st.lists(st.integers(1, 16), max_size=3),
            'rewinds': st.lists(st.integers(0, 30), max_size=2),
            'chunked': st.just(0)}), max_size=3))
    else:
        case['scripts']['stream'] = draw(st.lists(st.fixed_dictionaries({
            'short': st.lists(st.integers(0, 8), max_size=3),
            'fault_at': st.one_of(st.none(), st.none(), st.integers(0, 30)),
            'fault': st.sampled_from(['retryable:0', 'retryable:1',
                                      'retryable:3', 'retryable:4'])}),
            max_size=4))
    if with_faults:
        if op == 'upload':
            sites = ['s3.create_multipart_upload', 's3.upload_part',
                     's3.upload_part', 's3.complete_multipart_upload',
                     's3.put_object', 'fs.read', 'fs.stat', 'fs.stat']
        else:
            sites = ['s3.head_object', 's3.get_object', 'fs.open', 'fs.write',
                     'fs.rename', 'stream.read']
        case['faults'] = draw(st.lists(st.builds(
            lambda s, n, w: {'site': s, 'nth': n, 'exc': 'injected',
                             'when': w if s.startswith('s3.') else 'before'},
            st.sampled_from(sites), st.sampled_from([0, 0, 1, 2]),
            st.sampled_from(['before', 'before', 'after'])),
            min_size=1, max_size=2))
    return case


# ---------------------------------------------------------------- real scale
MiB = 1024 * 1024


@st.composite
def real_scale_cases(draw, types=('upload', 'download', 'copy'),
                     need_subs=False):
    """Unscaled ChunksizeAdjuster (5 MiB..5 GiB, 10 000 parts) and MiB-sized
    payloads: a thin class that keeps the scaled-limits trick honest."""
    thr = draw(st.sampled_from([5 * MiB, 6 * MiB, 8 * MiB]))
    chunk = draw(st.sampled_from([1 * MiB, 5 * MiB, 5 * MiB + 1, 6 * MiB]))
    eff = max(chunk, 5 * MiB)
    size = draw(st.sampled_from([
        thr - 1, thr, thr + 1, 2 * eff - 1, 2 * eff, 2 * eff + 1,
        eff + 5 * MiB + 7]))
    typ = draw(st.sampled_from(list(types)))
    t = {'type': typ, 'size': size,
         'subs': draw(st.sampled_from([[], [{'size': False,
                                             'raise_done': False,
                                             'reenter': {}}]]))}
    if need_subs:
        t['subs'] = [{'size': False, 'raise_done': False, 'reenter': {}}]
    if typ == 'upload':
        t['src'] = draw(st.sampled_from(['path', 'seek', 'nonseek']))
        t['start'] = draw(st.sampled_from([0, 3]))
        t['extra'] = {}
    elif typ == 'download':
        t['dst'] = draw(st.sampled_from(['path', 'seek', 'nonseek']))
        t['preexist'] = None
    else:
        t['version'] = False
        t['src_client'] = False
        t['extra'] = {}
    cfg = {'multipart_threshold': thr, 'multipart_chunksize': chunk,
           'io_chunksize': 256 * 1024,
           'max_request_concurrency': draw(st.integers(1, 3)),
           'max_submission_concurrency': 1,
           'max_request_queue_size': 10, 'max_submission_queue_size': 10,
           'max_io_queue_size': 10, 'num_download_attempts': 2,
           'max_in_memory_upload_chunks': 2,
           'max_in_memory_download_chunks': 2}
    rew = draw(st.sampled_from([[], [], [3 * MiB], [eff]]))
    return {'cfg': cfg, 'adj': None, 'exec': 'thr', 'rcc': 'when_required',
            'transfers': [t], 'real_scale': True, 'max_steps': 400000,
            'scripts': {'body': [{'preflight': False, 'sign': False,
                                  'blocks': [1024 * 1024], 'rewinds': rew,
                                  'chunked': 0}],
                        'stream': [{'short': [300000, 0, 70000],
                                    'fault_at': draw(st.sampled_from(
                                        [None, None, 3 * MiB + 5])),
                                    'fault': 'retryable:1'}]},
            'faults': [], 'end': {'how': 'shutdown', 'wait_results': True},
            'sched': draw(schedules(30))}


def _huge_copy_case(chunk, size):
    cfg = {'multipart_threshold': 8 * MiB, 'multipart_chunksize': chunk,
           'io_chunksize': 256 * 1024, 'max_request_concurrency': 2,
           'max_submission_concurrency': 1, 'max_request_queue_size': 1000,
           'max_submission_queue_size': 10, 'max_io_queue_size': 10,
           'num_download_attempts': 1, 'max_in_memory_upload_chunks': 2,
           'max_in_memory_download_chunks': 2}
    return {'cfg': cfg, 'adj': None, 'exec': 'thr', 'rcc': 'when_required',
            'transfers': [{'type': 'copy', 'size': size, 'virtual': True,
                           'version': False, 'src_client': False,
                           'extra': {}, 'subs': []}],
            'scripts': {'body': [], 'stream': []}, 'faults': [],
            'max_steps': 3000000, 'kind': 'e2e',
            'end': {'how': 'shutdown', 'wait_results': True},
            'sched': {'mode': 'walk', 'choices': []}}


GiB = 1024 ** 3
TiB = 1024 ** 4
HUGE_CHUNKS = [1 * MiB, 5 * MiB, 8 * MiB, 8 * MiB + 1, 64 * MiB, 5 * GiB,
               5 * GiB + 1, 6 * GiB, 8 * GiB]
HUGE_SIZES = [10000 * 8 * MiB - 1, 10000 * 8 * MiB, 10000 * 8 * MiB + 1,
              10000 * 16 * MiB + 9999, 5 * TiB - 1, 5 * TiB, 1 * TiB + 12345,
              3 * 5 * GiB + 1, 10001 * 5 * MiB, 5 * GiB + 1, 20 * GiB,
              2 ** 31 + 1, 2 ** 32 + 1]


def huge_copy_matrix():
    """Real-scale, data-less multipart copies up to 5 TiB (planning only):
    the full product of boundary chunk sizes and boundary object sizes."""
    return [_huge_copy_case(c, s) for c in HUGE_CHUNKS for s in HUGE_SIZES]


@st.composite
def huge_copy_cases(draw):
    """Free draws (thorough tier): any chunk size from 1 MiB to 8 GiB, any
    object size from 8 MiB to 5 TiB, biased to the boundaries."""
    chunk = draw(st.one_of(
        st.sampled_from(HUGE_CHUNKS),
        st.integers(1 * MiB, 8 * GiB),
        st.builds(lambda b, d: max(1, b + d), st.sampled_from(HUGE_CHUNKS),
                  st.integers(-3, 3))))
    size = draw(st.one_of(
        st.sampled_from(HUGE_SIZES),
        st.integers(8 * MiB, 5 * TiB),
        st.builds(lambda k, c, d: min(5 * TiB, max(8 * MiB, k * c + d)),
                  st.sampled_from([1, 2, 3, 9999, 10000, 10001]),
                  st.sampled_from(HUGE_CHUNKS), st.integers(-2, 2))))
    return _huge_copy_case(chunk, size)
