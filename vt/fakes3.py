"""In-memory S3 service + client facade used by every end-to-end check.

The client exposes exactly what s3transfer touches.  Every call
 * is a scheduling point at begin and end and is logged in the trace,
 * validates its keyword names against the input shape of the same operation
   in the installed botocore S3 service model,
 * consumes upload bodies the way botocore does (see DESIGN 2.2),
 * can fail per the fault plan, before or after its effect.
"""
import re

from .detsched import SchedAbort

_SHAPES = None

OPS = {
    'head_object': 'HeadObject',
    'get_object': 'GetObject',
    'put_object': 'PutObject',
    'copy_object': 'CopyObject',
    'delete_object': 'DeleteObject',
    'create_multipart_upload': 'CreateMultipartUpload',
    'upload_part': 'UploadPart',
    'upload_part_copy': 'UploadPartCopy',
    'complete_multipart_upload': 'CompleteMultipartUpload',
    'abort_multipart_upload': 'AbortMultipartUpload',
}


def op_shapes():
    """{OperationName: frozenset(input member names)} from the installed
    botocore S3 model (loaded from disk, offline)."""
    global _SHAPES
    if _SHAPES is None:
        import botocore.loaders
        m = botocore.loaders.Loader().load_service_model('s3', 'service-2')
        out = {}
        for name, op in m['operations'].items():
            sh = op.get('input', {}).get('shape')
            if sh:
                out[name] = frozenset(m['shapes'][sh]['members'])
        _SHAPES = out
    return _SHAPES


class InjectedFault(Exception):
    """A fault injected by the harness (identity is checked by C03)."""

    def __init__(self, site, n=0):
        super().__init__(f'injected fault at {site}#{n}')
        self.site = site


class FakeClientError(Exception):
    """Stands for botocore ClientError / ParamValidationError."""


class UnknownParameter(FakeClientError):
    pass


def retryable_exc(kind, site):
    """One of the five retryable stream error families."""
    import socket
    from botocore.exceptions import (
        IncompleteReadError, ReadTimeoutError, ResponseStreamingError,
    )
    k = kind % 5
    if k == 0:
        e = socket.timeout(f'injected timeout at {site}')
    elif k == 1:
        e = ConnectionError(f'injected connection error at {site}')
    elif k == 2:
        e = ReadTimeoutError(endpoint_url=f'injected://{site}')
    elif k == 3:
        e = IncompleteReadError(actual_bytes=0, expected_bytes=1)
    else:
        e = ResponseStreamingError(error=f'injected at {site}')
    e._vt_injected = True
    return e


_PERIODS = {}


def pattern_bytes(n, salt=0, start=0):
    """Position-dependent payload ((7*i+salt) mod 251 at position i):
    displacement, overlap and duplication are all visible."""
    base = _PERIODS.get(salt % 251)
    if base is None:
        base = bytes(((7 * i + salt) % 251) for i in range(251))
        _PERIODS[salt % 251] = base
    off = start % 251
    reps = (off + n) // 251 + 1
    return (base * reps)[off:off + n]


class SizedBlob:
    """A data-less object of a given size (real-scale planning cases: only
    lengths and ranges matter)."""

    def __init__(self, size):
        self.size = size

    def __len__(self):
        return self.size

    def __getitem__(self, sl):
        a, b, _ = sl.indices(self.size)
        return SizedBlob(max(0, b - a))

    def __eq__(self, other):
        return isinstance(other, SizedBlob) and other.size == self.size

    def __hash__(self):
        return hash(self.size)


class Trace:
    def __init__(self, sched):
        self.sched = sched
        self.events = []
        self.calls = []
        self.delivered = []      # (step, site, exc, info)
        self.notes = []

    def ev(self, kind, **info):
        s = self.sched
        e = (s.step, s.cur.tid if s.cur else -1, kind, info)
        self.events.append(e)
        return e


class FaultPlan:
    """entries: {'site': 's3.upload_part', 'nth': 1, 'when': 'before'|'after',
    'exc': 'injected'|'retryable:<k>'|'oserror'}.  nth counts from 0 per site
    (and per key when 'key' is given)."""

    def __init__(self, entries, trace):
        self.entries = [dict(e) for e in (entries or [])]
        self.trace = trace
        self.counts = {}
        self.fired = []
        self.site_log = []       # every site visited, in order (dry runs)

    def visit(self, site, key=None, phase='before'):
        """Returns an exception instance to raise, or None."""
        if phase == 'before':
            n = self.counts.get((site, key), 0)
            self.counts[(site, key)] = n + 1
            g = self.counts.get((site, None, 'g'), 0)
            self.counts[(site, None, 'g')] = g + 1
            self.site_log.append((site, key, n))
        else:
            n = self.counts.get((site, key), 1) - 1
            g = self.counts.get((site, None, 'g'), 1) - 1
        for e in self.entries:
            if e.get('_done') or e['site'] != site:
                continue
            if e.get('when', 'before') != phase:
                continue
            ek = e.get('key')
            idx = n if ek is not None else g
            if ek is not None and ek != key:
                continue
            if e['nth'] != idx:
                continue
            e['_done'] = True
            exc = self._make(e, site, idx)
            self.fired.append((e, exc))
            self.trace.delivered.append(
                (self.trace.sched.step, site, exc,
                 {'key': key, 'when': phase, 'nth': idx, 'spec': e}))
            self.trace.ev('fault', site=site, key=key, when=phase,
                          exc=type(exc).__name__)
            return exc
        return None

    def _make(self, e, site, n):
        kind = e.get('exc', 'injected')
        if kind == 'injected':
            return InjectedFault(site, n)
        if kind.startswith('retryable'):
            k = int(kind.split(':')[1]) if ':' in kind else 0
            return retryable_exc(k, site)
        if kind == 'oserror':
            import errno
            x = OSError(errno.ENOSPC, f'injected ENOSPC at {site}')
            x._vt_injected = True
            return x
        if kind == 'brokenpipe':
            import errno
            x = BrokenPipeError(errno.EPIPE, f'injected EPIPE at {site}')
            x._vt_injected = True
            return x
        if kind == 'kbi':
            # Ctrl-C arriving while this call runs (only generated for the
            # serial executor, where every call runs on the user's thread)
            x = KeyboardInterrupt(f'injected Ctrl-C at {site}')
            x._vt_injected = True
            return x
        if kind in ('valueerror', 'hard:valueerror'):
            x = ValueError(f'injected ValueError at {site}')
            x._vt_injected = True
            return x
        raise ValueError(kind)


class Events:
    """client.meta.events: register_first / register / register_last."""

    def __init__(self):
        self.first = []
        self.mid = []
        self.last = []

    def _reg(self, lst, name, handler, unique_id):
        if unique_id is not None:
            for (n, h, u) in self.first + self.mid + self.last:
                if u == unique_id:
                    return
        lst.append((name, handler, unique_id))

    def register_first(self, name, handler, unique_id=None, **kw):
        self._reg(self.first, name, handler, unique_id)

    def register(self, name, handler, unique_id=None, **kw):
        self._reg(self.mid, name, handler, unique_id)

    def register_last(self, name, handler, unique_id=None, **kw):
        self._reg(self.last, name, handler, unique_id)

    def unregister(self, name, handler=None, unique_id=None, **kw):
        for lst in (self.first, self.mid, self.last):
            lst[:] = [x for x in lst if not (
                x[0] == name and (unique_id is None or x[2] == unique_id)
                and (handler is None or x[1] == handler))]

    def emit(self, name, mid_hook=None, **kwargs):
        def match(reg):
            return name == reg or name.startswith(reg + '.')
        for (n, h, u) in list(self.first):
            if match(n):
                h(**kwargs)
        for (n, h, u) in list(self.mid):
            if match(n):
                h(**kwargs)
        if mid_hook is not None:
            mid_hook()
        for (n, h, u) in list(self.last):
            if match(n):
                h(**kwargs)


class _Config:
    def __init__(self, rcc):
        self.request_checksum_calculation = rcc
        self.user_agent_extra = ''


class _Meta:
    def __init__(self, rcc):
        self.events = Events()
        self.config = _Config(rcc)
        self.region_name = 'us-west-2'


class _Request:
    def __init__(self, body):
        self.body = body


class Upload:
    def __init__(self, uid, bucket, key, kwargs):
        self.id = uid
        self.bucket = bucket
        self.key = key
        self.kwargs = kwargs
        self.parts = {}         # part number -> dict(etag, data, checksums)
        self.log = []           # call records for this id, in begin order
        self.completed = 0
        self.aborted = 0
        self.state = 'open'
        self.delivered = False  # create response delivered to the library


class StreamingBody:
    """get_object()['Body'] following a generated stream script."""

    def __init__(self, svc, call, data, script, site_key):
        self.svc = svc
        self.call = call
        self.data = data
        self.pos = 0
        self.script = script or {}
        self.short = list(self.script.get('short') or [])
        self.fault_at = self.script.get('fault_at')
        self.fault_kind = self.script.get('fault', 'retryable:0')
        self.i = 0
        self.site_key = site_key
        self.closed = False

    def read(self, amt=None):
        svc = self.svc
        svc.sched.point(None, 'body.read')
        exc = svc.faults.visit('stream.read', self.site_key)
        if exc is not None:
            self.call['stream_fault'] = exc
            raise exc
        remaining = len(self.data) - self.pos
        if amt is None or amt < 0:
            n = remaining
        else:
            n = min(amt, remaining)
        if self.short and n > 1:
            k = self.short[self.i % len(self.short)]
            self.i += 1
            if k > 0:
                n = max(1, min(n, k))
        if self.fault_at is not None and self.pos + n > self.fault_at:
            n = self.fault_at - self.pos
            if n <= 0:
                self.fault_at = None
                exc = svc.faults._make({'exc': self.fault_kind},
                                       'stream.script', 0)
                svc.trace.delivered.append(
                    (svc.sched.step, 'stream.script', exc,
                     {'key': self.site_key, 'when': 'mid', 'pos': self.pos}))
                self.call['stream_fault'] = exc
                svc.trace.ev('fault', site='stream.script',
                             key=self.site_key, pos=self.pos,
                             exc=type(exc).__name__)
                raise exc
        out = self.data[self.pos:self.pos + n]
        self.pos += n
        self.call['delivered'] = self.pos
        svc.trace.ev('s3.stream', call=self.call['id'], n=n, pos=self.pos,
                     clk=svc.sched.clock)
        return out

    def close(self):
        self.closed = True


def decode_aws_chunked(raw):
    out = bytearray()
    i = 0
    while True:
        j = raw.index(b'\r\n', i)
        n = int(raw[i:j], 16)
        i = j + 2
        if n == 0:
            break
        out += raw[i:i + n]
        i += n + 2
    return bytes(out)


class FakeS3:
    def __init__(self, sched, trace, faults, scripts=None,
                 strict_params=True):
        self.sched = sched
        self.trace = trace
        self.faults = faults
        self.scripts = scripts or {}
        self.objects = {}
        self.versions = {}       # (bucket, key) -> {version id: data}
        self.uploads = {}
        self.orphan_creates = []
        self.ncalls = 0
        self.nupload = 0
        self.netag = 0
        self.strict = strict_params
        self.shapes = op_shapes()
        self.script_count = {}
        self.key_events = {}     # key -> number of call begin/end events
        self.event_hook = None   # called after each begin/end event

    def client(self, name='c', rcc='when_required'):
        return FakeClient(self, name, rcc)

    # ---------------------------------------------------------------
    def script_for(self, kind, ordinal):
        lst = self.scripts.get(kind)
        if not lst:
            return None
        return lst[ordinal % len(lst)]

    def new_etag(self, tag):
        self.netag += 1
        # scrambled so that ETag order is unrelated to part / request order
        h = (self.netag * 2654435761 + 12345) % 4294967291
        return f'"{h:08x}-{tag}-{self.netag}"'


class FakeClient:
    def __init__(self, svc, name, rcc):
        self.svc = svc
        self.name = name
        self.meta = _Meta(rcc)

    # -- generic call wrapper ---------------------------------------
    def _call(self, op, kwargs, effect):
        svc = self.svc
        s = svc.sched
        opname = OPS[op]
        svc.ncalls += 1
        rec = {
            'id': svc.ncalls, 'op': op, 'client': self.name,
            'kwargs': {k: v for k, v in kwargs.items() if k != 'Body'},
            'names': sorted(kwargs), 'key': kwargs.get('Key'),
            'bucket': kwargs.get('Bucket'),
            'tid': s.cur.tid, 'role': s.cur.role, 'begin': None, 'end': None,
            'outcome': None, 'applied': False, 'exc': None,
        }
        svc.trace.calls.append(rec)
        up = None
        if 'UploadId' in kwargs:
            up = svc.uploads.get(kwargs['UploadId'])
            if up is not None:
                up.log.append(rec)
        s.point(None, f's3.{op}.begin')
        rec['begin'] = s.step
        ke = svc.key_events
        ke[rec['key']] = ke.get(rec['key'], 0) + 1
        if svc.event_hook is not None:
            svc.event_hook(rec['key'])
        svc.trace.ev('s3.begin', call=rec['id'], op=op, key=rec['key'])
        try:
            lat = svc.scripts.get('latency')
            if lat:
                # network latency in virtual time: the request stays in
                # flight while other threads run (the clock only jumps when
                # every thread is parked), so requests overlap the way they
                # do on a real network
                d = lat[(rec['id'] - 1) % len(lat)]
                if d:
                    wake = s.clock + d
                    s.point(lambda: s.clock >= wake, f's3.{op}.latency',
                            wake_at=wake)
            unknown = [k for k in kwargs if k not in svc.shapes[opname]]
            if unknown:
                rec['unknown'] = unknown
                if svc.strict:
                    raise UnknownParameter(
                        f'Unknown parameter in input to {opname}: {unknown}')
            exc = svc.faults.visit(f's3.{op}', rec['key'])
            if exc is not None:
                raise exc
            resp = effect(rec)
            rec['applied'] = True
            exc = svc.faults.visit(f's3.{op}', rec['key'], phase='after')
            if exc is not None:
                raise exc
            rec['outcome'] = 'ok'
            return resp
        except SchedAbort:
            rec['outcome'] = 'abort'
            raise
        except BaseException as e:  # noqa
            rec['outcome'] = 'error'
            rec['exc'] = e
            raise
        finally:
            if not s.aborting:
                try:
                    s.point(None, f's3.{op}.end')
                finally:
                    rec['end'] = s.step
                    ke = svc.key_events
                    ke[rec['key']] = ke.get(rec['key'], 0) + 1
                    if svc.event_hook is not None and not s.aborting:
                        svc.event_hook(rec['key'])
                    svc.trace.ev('s3.end', call=rec['id'], op=op,
                                 key=rec['key'], outcome=rec['outcome'])

    # -- body consumption (botocore's protocol) ----------------------
    def _consume_body(self, body, opname, rec, ordinal):
        svc = self.svc
        s = svc.sched
        script = svc.script_for('body', ordinal) or {}
        blocks = list(script.get('blocks') or [])
        rewinds = list(script.get('rewinds') or [])
        chunked = script.get('chunked', 0)
        events = self.meta.events
        rec['attempts'] = []
        if isinstance(body, (bytes, bytearray)):
            rec['attempts'].append(len(body))
            return bytes(body)

        def read_all(b):
            out = bytearray()
            while True:
                d = b.read(64 * 1024)
                if not d:
                    break
                out += d
            return out

        if script.get('preflight'):
            # header-mode flexible checksum: tell, read to EOF, seek back
            pos = body.tell()
            s.unbilled.add(s.cur.tid)
            try:
                read_all(body)
            finally:
                s.unbilled.discard(s.cur.tid)
            body.seek(pos)
        wire = body
        if chunked:
            from botocore.httpchecksum import AwsChunkedWrapper
            wire = AwsChunkedWrapper(body, chunk_size=max(1, chunked))
        attempt = 0
        while True:
            req = _Request(wire)

            def sign():
                if script.get('sign'):
                    # payload signing: read everything, rewind
                    if not chunked:
                        s.unbilled.add(s.cur.tid)
                        try:
                            read_all(body)
                        finally:
                            s.unbilled.discard(s.cur.tid)
                        body.seek(0)

            events.emit(f'request-created.s3.{opname}', mid_hook=sign,
                        request=req, operation_name=opname)
            clen = None
            if not chunked:
                clen = len(body)
            got = bytearray()
            stop = rewinds[attempt] if attempt < len(rewinds) else None
            i = 0
            aborted = False
            while True:
                n = blocks[i % len(blocks)] if blocks else 8192
                i += 1
                n = max(1, n)
                if stop is not None and len(got) + n > stop and not chunked:
                    n = stop - len(got)
                    if n <= 0:
                        aborted = True
                        break
                s.point(None, 'body.send')
                d = wire.read(n)
                if not d:
                    break
                got += d
                if not chunked:
                    svc.trace.ev('s3.sent', call=rec['id'], n=len(d),
                                 clk=s.clock)
                if stop is not None and chunked and len(got) >= stop:
                    aborted = True
                    break
            rec['attempts'].append(len(got))
            if aborted:
                attempt += 1
                svc.trace.ev('s3.rewind', call=rec['id'], sent=len(got))
                wire.seek(0)   # AWSPreparedRequest.reset_stream()
                continue
            data = decode_aws_chunked(bytes(got)) if chunked else bytes(got)
            if clen is not None and clen != len(data):
                raise FakeClientError(
                    f'IncompleteBody: Content-Length {clen} but body '
                    f'delivered {len(data)} bytes')
            return data

    # -- operations ---------------------------------------------------
    def head_object(self, **kw):
        svc = self.svc

        def effect(rec):
            src = (kw['Bucket'], kw['Key'])
            obj = self._object(src, kw.get('VersionId'), '404 Not Found')
            return {'ContentLength': len(obj), 'ETag': '"head"'}
        return self._call('head_object', kw, effect)

    def get_object(self, **kw):
        svc = self.svc

        def effect(rec):
            src = (kw['Bucket'], kw['Key'])
            data = self._object(src, kw.get('VersionId'), 'NoSuchKey')
            rng = kw.get('Range')
            a = 0
            if rng is not None:
                m = re.match(r'^bytes=(\d+)-(\d*)$', rng)
                if not m:
                    raise FakeClientError(f'InvalidRange {rng}')
                a = int(m.group(1))
                b = int(m.group(2)) if m.group(2) else len(data) - 1
                if a >= len(data) and len(data) > 0:
                    raise FakeClientError(f'InvalidRange {rng}')
                data = data[a:b + 1]
            site_key = (kw['Key'], rng)
            n = svc.script_count.get(site_key, 0)
            svc.script_count[site_key] = n + 1
            rec['attempt'] = n
            rec['range_start'] = a
            rec['range_len'] = len(data)
            script = svc.script_for('stream', a + 31 * n)
            return {'Body': StreamingBody(svc, rec, data, script, site_key),
                    'ContentLength': len(data)}
        return self._call('get_object', kw, effect)

    def put_object(self, **kw):
        svc = self.svc

        def effect(rec):
            data = self._consume_body(kw['Body'], 'PutObject', rec, 0)
            svc.objects[(kw['Bucket'], kw['Key'])] = data
            rec['body_len'] = len(data)
            return {'ETag': svc.new_etag('put')}
        return self._call('put_object', kw, effect)

    def delete_object(self, **kw):
        svc = self.svc

        def effect(rec):
            svc.objects.pop((kw['Bucket'], kw['Key']), None)
            return {}
        return self._call('delete_object', kw, effect)

    def _source(self, copy_source):
        svc = self.svc
        if isinstance(copy_source, dict):
            src = (copy_source['Bucket'], copy_source['Key'])
        else:
            b, _, k = str(copy_source).partition('/')
            src = (b, k)
        vid = copy_source.get('VersionId') if isinstance(
            copy_source, dict) else None
        return self._object(src, vid, 'NoSuchKey (copy source)')

    def _object(self, src, version_id, missing):
        """the named version of an object, or its latest version"""
        svc = self.svc
        if version_id is not None and src in svc.versions:
            if version_id not in svc.versions[src]:
                raise FakeClientError('NoSuchVersion')
            return svc.versions[src][version_id]
        if src not in svc.objects:
            raise FakeClientError(missing)
        return svc.objects[src]

    def copy_object(self, **kw):
        svc = self.svc

        def effect(rec):
            data = self._source(kw['CopySource'])
            svc.objects[(kw['Bucket'], kw['Key'])] = data
            return {'CopyObjectResult': {'ETag': svc.new_etag('copy')}}
        return self._call('copy_object', kw, effect)

    def create_multipart_upload(self, **kw):
        svc = self.svc

        def effect(rec):
            svc.nupload += 1
            uid = f'upload-{svc.nupload}'
            up = Upload(uid, kw['Bucket'], kw['Key'], dict(kw))
            svc.uploads[uid] = up
            up.log.append(rec)
            rec['upload_id'] = uid
            return {'UploadId': uid}
        resp = self._call('create_multipart_upload', kw, effect)
        svc.uploads[resp['UploadId']].delivered = True
        return resp

    def _upload(self, kw):
        up = self.svc.uploads.get(kw['UploadId'])
        if up is None or up.bucket != kw['Bucket'] or up.key != kw['Key']:
            raise FakeClientError('NoSuchUpload')
        return up

    def _checksums(self, kw, etag):
        alg = kw.get('ChecksumAlgorithm')
        if alg:
            return {f'Checksum{alg.upper()}': f'sum-{alg.upper()}-{etag}'}
        return {}

    def upload_part(self, **kw):
        svc = self.svc

        def effect(rec):
            up = self._upload(kw)
            pn = kw['PartNumber']
            data = self._consume_body(kw['Body'], 'UploadPart', rec, pn)
            if up.state != 'open':
                rec['late'] = up.state
                raise FakeClientError('NoSuchUpload (finished)')
            etag = svc.new_etag(f'{up.id}-p{pn}')
            sums = self._checksums(kw, etag)
            up.parts[pn] = {'etag': etag, 'data': data, 'sums': sums}
            rec['body_len'] = len(data)
            rec['etag'] = etag
            resp = {'ETag': etag}
            resp.update(sums)
            return resp
        return self._call('upload_part', kw, effect)

    def upload_part_copy(self, **kw):
        svc = self.svc

        def effect(rec):
            up = self._upload(kw)
            pn = kw['PartNumber']
            data = self._source(kw['CopySource'])
            rng = kw.get('CopySourceRange')
            if rng is not None:
                m = re.match(r'^bytes=(\d+)-(\d+)$', rng)
                if not m:
                    raise FakeClientError(f'InvalidArgument range {rng}')
                a, b = int(m.group(1)), int(m.group(2))
                if b >= len(data) or a > b:
                    raise FakeClientError(f'InvalidRange {rng}')
                data = data[a:b + 1]
                rec['range'] = (a, b)
            if up.state != 'open':
                rec['late'] = up.state
                raise FakeClientError('NoSuchUpload (finished)')
            etag = svc.new_etag(f'{up.id}-c{pn}')
            alg = up.kwargs.get('ChecksumAlgorithm')
            sums = {}
            if alg:
                sums = {f'Checksum{alg.upper()}':
                        f'sum-{alg.upper()}-{etag}'}
            up.parts[pn] = {'etag': etag, 'data': data, 'sums': sums}
            rec['etag'] = etag
            res = {'ETag': etag}
            res.update(sums)
            return {'CopyPartResult': res}
        return self._call('upload_part_copy', kw, effect)

    def complete_multipart_upload(self, **kw):
        svc = self.svc

        def effect(rec):
            up = self._upload(kw)
            parts = kw['MultipartUpload']['Parts']
            rec['parts'] = [dict(p) for p in parts]
            if up.state == 'aborted':
                rec['late'] = up.state
                raise FakeClientError('NoSuchUpload (aborted)')
            if up.state == 'completed':
                up.completed += 1
                return {}
            last = 0
            out = bytearray()
            sized = 0
            for p in parts:
                pn = p['PartNumber']
                if pn <= last:
                    raise FakeClientError('InvalidPartOrder')
                last = pn
                have = up.parts.get(pn)
                if have is None or have['etag'] != p.get('ETag'):
                    raise FakeClientError(f'InvalidPart {pn}')
                if isinstance(have['data'], SizedBlob):
                    sized += len(have['data'])
                else:
                    out += have['data']
            up.state = 'completed'
            up.completed += 1
            up.final_parts = [dict(p) for p in parts]
            svc.objects[(up.bucket, up.key)] = (
                SizedBlob(sized) if sized else bytes(out))
            return {'ETag': svc.new_etag('mpu')}
        return self._call('complete_multipart_upload', kw, effect)

    def abort_multipart_upload(self, **kw):
        svc = self.svc

        def effect(rec):
            up = self._upload(kw)
            up.aborted += 1
            if up.state == 'open':
                up.state = 'aborted'
            return {}
        return self._call('abort_multipart_upload', kw, effect)
