"""Oracles over the Result of an end-to-end run: Result -> [(signature, msg)].

Each oracle demands what its property states and nothing more (DESIGN 3).
"""
from .fakes3 import InjectedFault


def role_name(t):
    n = t[1]
    return ''.join(ch for ch in n if not ch.isdigit())


def sig_deadlock(R):
    dl = R.sched.deadlock or []
    if any(len(x) > 3 and x[3] == x[0] for x in dl):
        return 'deadlock:self-relock'
    parts = sorted({f'{role_name(x)}@{x[2]}' for x in dl})
    return 'deadlock:' + ','.join(parts)


def reenter_summary(case):
    ops = set()
    for t in case['transfers']:
        for s in t.get('subs') or []:
            for w, lst in (s.get('reenter') or {}).items():
                for op in lst:
                    ops.add(f'{w}.{op}')
    return sorted(ops)


# ----------------------------------------------------------------- C04
def oracle_c04(R):
    v = []
    s = R.sched
    if s.deadlock:
        re = reenter_summary(R.case)
        sig = sig_deadlock(R)
        v.append((sig, f'deadlock state: blocked threads {s.deadlock}; '
                       f're-entrant subscriber ops in case: {re}'))
        return v
    if s.budget_exceeded:
        return v   # handled by the livelock re-run in the check
    end = R.end
    interrupted = bool(s.kbi_delivered)
    if (end.get('returned') or end.get('how', '').startswith('with')) \
            and not interrupted:
        dar = end.get('done_at_return')
        if dar is not None and any(d is False for d in dar):
            v.append(('not-done-after-shutdown',
                      f'shutdown/with-exit returned at step '
                      f'{end.get("return_step")} but futures done={dar}'))
        if end.get('executors_left_running'):
            v.append(('threads-alive-after-shutdown',
                      f'{end["executors_left_running"]} executors still '
                      f'running after shutdown returned'))
    for r in R.transfers:
        if r['future'] is not None and r['outcome'] is None:
            v.append(('result-never-returned',
                      f'transfer {r["i"]}: result() did not return'))
    return v


# ------------------------------------------------------------ helpers
def retryable_families():
    """The retryable streaming-error families, stated here independently of
    the code under test (socket timeouts, connection errors, read timeouts,
    incomplete reads, response streaming errors)."""
    import socket
    from botocore.exceptions import (
        IncompleteReadError, ReadTimeoutError, ResponseStreamingError)
    return (socket.timeout, ConnectionError, ReadTimeoutError,
            IncompleteReadError, ResponseStreamingError)


def is_cancel_exc(e):
    from s3transfer.exceptions import CancelledError
    return isinstance(e, CancelledError)


def calls_of(R, r):
    keys = {r['key']}
    if r['type'] == 'copy':
        keys.add(r['copy_source']['Key'])
    return [c for c in R.trace.calls if c['key'] in keys]


def uploads_of(R, r):
    return [u for u in R.svc.uploads.values() if u.key == r['key']]


def cfg_of(R):
    return R.case['cfg']


def kind_of(r):
    t = r['spec']
    return t['type'] + ':' + (t.get('src') or t.get('dst') or '-')


def temp_of(path, x):
    """x is path itself or a temporary file derived from it (the library's
    rule: base name cut to fit 255 characters, a dot, 8 hex digits)."""
    if x == path or x.startswith(path + '.'):
        return True
    import os
    if os.path.dirname(x) != os.path.dirname(path):
        return False
    bx, bp = os.path.basename(x), os.path.basename(path)
    return (len(bp) > 246 and len(bx) == 255 and bx[246] == '.'
            and bx[:246] == bp[:246])


def delivered_for(R, r):
    """Faults delivered to sites of transfer r."""
    out = []
    i = r['i']
    path = r.get('fileobj') if isinstance(r.get('fileobj'), str) else None
    keys = {r['key']}
    if r['type'] == 'copy':
        keys.add(r['copy_source']['Key'])
    for (step, site, exc, info) in R.trace.delivered:
        k = info.get('key')
        hit = False
        if site.startswith('s3.'):
            hit = k in keys
        elif site in ('stream.read', 'stream.script'):
            hit = isinstance(k, tuple) and k[0] in keys
        elif site in ('src.read', 'dst.write', 'cb.on_queued',
                      'cb.on_progress'):
            hit = k == i
        elif site.startswith('fs.'):
            hit = path is not None and isinstance(k, str) and \
                temp_of(path, k)
        if hit:
            out.append((step, site, exc, info))
    return out


def cancel_sources(R, r):
    """(type name, message) pairs of cancellation actions that may have
    reached transfer r, derived from the case (not from the code)."""
    from s3transfer.exceptions import CancelledError, FatalError
    out = []
    i = r['i']
    for c in R.cancel_log:
        if c['t'] == i and 'step' in c:
            out.append((CancelledError, ''))
    for t in R.case['transfers'][i:i + 1]:
        for s in t.get('subs') or []:
            for w, ops in (s.get('reenter') or {}).items():
                if 'cancel' in ops:
                    out.append((CancelledError, ''))
    end = R.end
    how = end.get('how')
    if how == 'shutdown_cancel':
        out.append((CancelledError, end.get('msg', '')))
    elif how == 'with_exc':
        m = end.get('msg', '')
        # str(exc) or repr(exc) of the exception leaving the with-block
        out.append((FatalError, m if m else f"UserExc({m!r})"))
    elif how == 'with_kbi':
        out.append((CancelledError, 'KeyboardInterrupt()'))
    for (step, what, *_q) in R.sched.kbi_delivered:
        # Ctrl-C in result() cancels that future with ''; Ctrl-C inside
        # shutdown's wait cancels everything with 'KeyboardInterrupt()'
        out.append((CancelledError, ''))
        out.append((CancelledError, 'KeyboardInterrupt()'))
    return out


def content_violation(R, r):
    """None, or a symptom string, for a transfer that reported success."""
    exp = r['expect'] if 'expect' in r else None
    t = r['spec']
    if r['type'] in ('upload', 'copy'):
        got = R.svc.objects.get(('bkt', r['key']))
    elif r['type'] == 'download':
        fo = r['fileobj']
        if isinstance(fo, str):
            got = R.fs.files.get(fo)
            got = bytes(got) if got is not None else None
        else:
            got = bytes(fo.buf)
    else:
        return None if ('bkt', r['key']) not in R.svc.objects else 'present'
    if got is None:
        return 'missing'
    if got == exp:
        return None
    if len(got) < len(exp):
        return 'short'
    if len(got) > len(exp):
        return 'long'
    return 'corrupt'


def mode_of(R, r):
    if r['type'] in ('upload', 'copy'):
        return 'multipart' if uploads_of(R, r) else 'single'
    if r['type'] == 'download':
        gets = [c for c in R.trace.calls if c['op'] == 'get_object'
                and c['key'] == r['key']]
        return 'ranged' if any('Range' in c['kwargs'] for c in gets) \
            else 'single'
    return 'single'


def had_stream_fault(R, r):
    return any(site in ('stream.read', 'stream.script')
               for (_, site, _, _) in delivered_for(R, r))


# ----------------------------------------------------------------- C01
def oracle_c01(R):
    v = []
    for r in R.all_recs():
        if r['type'] not in ('upload', 'copy') or not r['outcome']:
            continue
        kind = kind_of(r)
        # every CompleteMultipartUpload request that was sent (also one the
        # service rejected) lists parts 1..n in ascending order
        for c in calls_of(R, r):
            if c['op'] == 'complete_multipart_upload' and 'parts' in c:
                nums = [p.get('PartNumber') for p in c['parts']]
                if nums != list(range(1, len(nums) + 1)):
                    v.append((f'c01:{kind}:multipart:part-numbers',
                              f'complete request lists parts as {nums}'))
        if not r['outcome'].get('ok'):
            continue
        mode = mode_of(R, r)
        sym = content_violation(R, r)
        if sym:
            v.append((f'c01:{kind}:{mode}:object-{sym}',
                      f'transfer {r["i"]} reported success but the stored '
                      f'object is {sym}: expected {len(r["expect"])} bytes, '
                      f'got {sym}'))
        ups = uploads_of(R, r)
        if ups:
            applied = [u for u in ups if u.completed]
            if len(ups) != 1 or sum(u.completed for u in ups) != 1:
                v.append((f'c01:{kind}:multipart:complete-count',
                          f'transfer {r["i"]}: {len(ups)} uploads created, '
                          f'completes applied '
                          f'{[u.completed for u in ups]}'))
            for u in applied:
                parts = getattr(u, 'final_parts', [])
                nums = [p.get('PartNumber') for p in parts]
                if nums != list(range(1, len(nums) + 1)):
                    v.append((f'c01:{kind}:multipart:part-numbers',
                              f'parts listed as {nums}'))
                alg = (r['spec'].get('extra') or {}).get('ChecksumAlgorithm')
                for p in parts:
                    have = u.parts.get(p.get('PartNumber'))
                    if have is None or have['etag'] != p.get('ETag'):
                        v.append((f'c01:{kind}:multipart:etag',
                                  f'part {p} does not carry the ETag S3 '
                                  f'returned'))
                        continue
                    if alg:
                        member = f'Checksum{alg.upper()}'
                        if p.get(member) != have['sums'].get(member):
                            v.append((f'c01:{kind}:multipart:part-checksum',
                                      f'part {p} lacks/mismatches {member} '
                                      f'= {have["sums"].get(member)}'))
                # parts tile the source with no gap/overlap/reorder
                off = 0
                for p in parts:
                    have = u.parts.get(p.get('PartNumber'))
                    if have is None:
                        continue
                    d = have['data']
                    if r['expect'][off:off + len(d)] != d:
                        v.append((f'c01:{kind}:multipart:tiling',
                                  f'part {p.get("PartNumber")} is not the '
                                  f'source bytes at offset {off}'))
                        break
                    off += len(d)
        else:
            n = len([c for c in calls_of(R, r) if c['op'] in (
                'put_object', 'copy_object') and c['applied']])
            if n != 1:
                v.append((f'c01:{kind}:single:request-count',
                          f'{n} put/copy requests applied'))
    return v


# ----------------------------------------------------------------- C02
def oracle_c02(R):
    v = []
    attempts = cfg_of(R)['num_download_attempts']
    for r in R.all_recs():
        if r['type'] != 'download':
            continue
        kind = kind_of(r)
        mode = mode_of(R, r)
        gets = {}
        for c in R.trace.calls:
            if c['op'] == 'get_object' and c['key'] == r['key']:
                k = c['kwargs'].get('Range')
                gets[k] = gets.get(k, 0) + 1
        over = {k: n for k, n in gets.items() if n > attempts}
        if over:
            v.append((f'c02:{kind}:{mode}:too-many-gets',
                      f'GetObject per range {over} > num_download_attempts='
                      f'{attempts}'))
        if not r['outcome'] or not r['outcome'].get('ok'):
            continue
        retry = ':retry' if had_stream_fault(R, r) else ''
        sym = content_violation(R, r)
        if sym:
            v.append((f'c02:{kind}:{mode}{retry}:dest-{sym}',
                      f'download {r["i"]} ({kind}, {mode}) reported success '
                      f'but destination is {sym} (object {len(r["expect"])} '
                      f'bytes)'))
        fo = r['fileobj']
        if not isinstance(fo, str) and r['spec']['dst'] == 'nonseek':
            last = 0
            for (off, n, step, tid) in fo.writes:
                if off != last:
                    v.append((f'c02:{kind}:{mode}{retry}:nonseq-write',
                              f'write at {off}, expected {last}'))
                    break
                last = off + n
    return v


# ----------------------------------------------------------------- C03
def retry_budget_ok(R, r):
    """per range: number of retryable stream faults delivered."""
    S3_RETRYABLE_DOWNLOAD_ERRORS = retryable_families()
    per = {}
    for (step, site, exc, info) in delivered_for(R, r):
        if isinstance(exc, S3_RETRYABLE_DOWNLOAD_ERRORS) and site in (
                'stream.read', 'stream.script', 's3.get_object'):
            k = info.get('key')
            rng = k[1] if isinstance(k, tuple) else None
            per[rng] = per.get(rng, 0) + 1
    return per


def oracle_c03(R):
    from s3transfer.exceptions import RetriesExceededError
    S3_RETRYABLE_DOWNLOAD_ERRORS = retryable_families()
    from .fakes3 import FakeClientError
    v = []
    attempts = cfg_of(R)['num_download_attempts']
    all_excs = [e for (_, _, e, _) in R.trace.delivered]
    all_excs += [c['exc'] for c in R.trace.calls if c['exc'] is not None]
    for r in R.all_recs():
        o = r['outcome']
        if o is None:
            continue
        kind = kind_of(r)
        D = delivered_for(R, r)
        eff = []
        # s3.get_object keyed faults carry key only; map to range via calls
        per_range = {}
        for (step, site, exc, info) in D:
            if site == 's3.abort_multipart_upload':
                continue
            if isinstance(exc, S3_RETRYABLE_DOWNLOAD_ERRORS) and \
                    r['type'] == 'download' and site in (
                        'stream.read', 'stream.script', 's3.get_object'):
                k = info.get('key')
                if site == 's3.get_object':
                    # find the call that raised it
                    rng = None
                    for c in R.trace.calls:
                        if c['exc'] is exc:
                            rng = c['kwargs'].get('Range')
                else:
                    rng = k[1] if isinstance(k, tuple) else None
                per_range.setdefault(rng, []).append(exc)
                continue
            eff.append(exc)
        exhausted = []
        for rng, lst in per_range.items():
            if len(lst) >= attempts:
                exhausted += lst
        # gets per range never exceed the budget; no GET after a hard fault
        if r['type'] == 'download':
            seq = [c for c in R.trace.calls if c['op'] == 'get_object'
                   and c['key'] == r['key']]
            cnt = {}
            for c in seq:
                k = c['kwargs'].get('Range')
                cnt[k] = cnt.get(k, 0) + 1
            for k, n in cnt.items():
                if n > attempts:
                    v.append((f'c03:{kind}:too-many-gets',
                              f'{n} GetObject for range {k} > {attempts}'))
            hard = {}
            for (step, site, exc, info) in D:
                if site in ('stream.read', 'stream.script') and not \
                        isinstance(exc, S3_RETRYABLE_DOWNLOAD_ERRORS):
                    hard[info['key'][1]] = step
            for c in seq:
                k = c['kwargs'].get('Range')
                if k in hard and c['begin'] is not None and \
                        c['begin'] > hard[k]:
                    v.append((f'c03:{kind}:retried-nonretryable',
                              f'GetObject for range {k} issued after a '
                              f'non-retryable stream fault'))
        if not eff and not exhausted:
            continue
        first = D[0][1] if D else '-'
        if o.get('ok'):
            sites = sorted({s for (_, s, _, _) in D})
            v.append((f'c03:{kind}:false-success:{",".join(sites)}',
                      f'transfer {r["i"]} ({kind}) returned normally '
                      f'although faults were delivered at {sites} and not '
                      f'absorbed'))
            continue
        e = o.get('exc')
        okset = eff + exhausted
        if any(e is x for x in okset):
            continue
        if isinstance(e, RetriesExceededError):
            le = e.last_exception
            if any(le is x for x in
                   [y for lst in per_range.values() for y in lst]):
                continue
            v.append((f'c03:{kind}:retries-exceeded-foreign',
                      f'RetriesExceededError.last_exception {le!r} is not '
                      f'a delivered fault'))
            continue
        if is_cancel_exc(e) and cancel_sources(R, r):
            continue
        if any(e is x for x in all_excs):
            continue    # another failure that really occurred
        v.append((f'c03:{kind}:foreign-exception:{type(e).__name__}',
                  f'transfer {r["i"]} raised {e!r}, which is none of the '
                  f'failures that occurred ({[type(x).__name__ for x in okset]})'))
    return v


# ----------------------------------------------------------------- C05
def oracle_c05(R):
    v = []
    for up in R.svc.uploads.values():
        if not up.delivered:
            continue
        r = next((x for x in R.all_recs() if x['key'] == up.key), None)
        if r is None or r['outcome'] is None:
            continue
        kind = kind_of(r)
        ok = r['outcome'].get('ok')
        ann = R.announced.get(r['i'])
        log = up.log
        aborts = [c for c in log if c['op'] == 'abort_multipart_upload']
        others = [c for c in log if c['op'] != 'abort_multipart_upload']
        completes = [c for c in log if c['op'] ==
                     'complete_multipart_upload' and c['applied']]
        if ok:
            if len(completes) != 1:
                v.append((f'c05:{kind}:success-completes={len(completes)}',
                          f'upload {up.id}: future succeeded, complete '
                          f'applied {len(completes)} times'))
            if aborts:
                v.append((f'c05:{kind}:success-but-aborted',
                          f'upload {up.id}: future succeeded but abort was '
                          f'issued'))
        else:
            if not aborts:
                v.append((f'c05:{kind}:left-open',
                          f'upload {up.id}: future failed/cancelled with '
                          f'{type(r["outcome"].get("exc")).__name__} but no '
                          f'abort was issued (state {up.state})'))
            if len(completes) > 1:
                v.append((f'c05:{kind}:completed-twice',
                          f'upload {up.id}: complete applied '
                          f'{len(completes)} times'))
        if aborts:
            a0 = min(c['begin'] for c in aborts if c['begin'] is not None)
            for c in others:
                if c['op'] == 'create_multipart_upload':
                    continue
                if c['begin'] is not None and c['begin'] > a0:
                    v.append((f'c05:{kind}:{c["op"]}-after-abort',
                              f'upload {up.id}: {c["op"]} began at step '
                              f'{c["begin"]} after abort began at {a0}'))
                    break
            for c in others:
                if c['end'] is None or c['end'] > a0:
                    v.append((f'c05:{kind}:abort-before-{c["op"]}-returned',
                              f'upload {up.id}: abort began at step {a0} '
                              f'while {c["op"]} (begin {c["begin"]}) had not '
                              f'returned (end {c["end"]})'))
                    break
            if ann is not None:
                late = [c for c in aborts if c['end'] is None
                        or c['end'] > ann]
                if late and not any(c['end'] is not None and c['end'] <= ann
                                    for c in aborts):
                    v.append((f'c05:{kind}:abort-after-done',
                              f'upload {up.id}: result() unblocked at step '
                              f'{ann} before the abort returned'))
        if ann is not None and ok:
            c = completes[0] if completes else None
            if c is not None and (c['end'] is None or c['end'] > ann):
                v.append((f'c05:{kind}:done-before-complete-returned',
                          f'upload {up.id}: done at {ann}, complete ended '
                          f'{c["end"]}'))
    return v


# ----------------------------------------------------------------- C06
def install_c06_watch(R):
    """Called by the run before the program starts: checks the destination
    after every file-system mutation (= at every crash point)."""
    state = {'viol': []}

    def watch(fs, what, path):
        for r in R.transfers:
            if r['type'] != 'download' or r['spec']['dst'] != 'path':
                continue
            p = r['fileobj']
            cur = fs.files.get(p)
            prev = r.get('previous')
            if cur is None:
                okv = True     # absent (also fine when previous existed? no)
                if prev is not None:
                    okv = False
            else:
                b = bytes(cur)
                okv = (prev is not None and b == prev) or b == r['expect']
            if not okv and not r.get('_c06_flagged'):
                r['_c06_flagged'] = True
                state['viol'].append(
                    (r['i'], R.sched.step, what, path,
                     None if cur is None else len(cur)))
    R.fs.watch.append(watch)
    R.c06_state = state


def oracle_c06(R):
    v = []
    for (i, step, what, path, n) in R.c06_state['viol']:
        r = R.transfers[i]
        v.append((f'c06:{mode_of(R, r)}:partial-visible:{what}',
                  f'download {i}: after {what}({path}) at step {step} the '
                  f'destination {r["fileobj"]} held {n} bytes - neither the '
                  f'previous content nor the complete object '
                  f'({len(r["expect"])} bytes)'))
    static = set()
    for r in R.all_recs():
        if isinstance(r.get('fileobj'), str):
            static.add(r['fileobj'])
    for r in R.transfers:
        if r['type'] != 'download' or r['spec']['dst'] != 'path' \
                or r['outcome'] is None:
            continue
        mode = mode_of(R, r)
        p = r['fileobj']
        i = r['i']
        lst = R.listing_at_announce.get(i)
        if lst is not None:
            temps = [x for x in lst if x != p and temp_of(p, x)]
            if temps:
                v.append((f'c06:{mode}:temp-left-at-done',
                          f'download {i}: temporary files {temps} exist when '
                          f'the future is done (step {R.announced.get(i)})'))
        temps = [x for x in R.fs.listing() if x != p and temp_of(p, x)]
        if temps:
            v.append((f'c06:{mode}:temp-left',
                      f'download {i}: temporary files {temps} remain at '
                      f'the end'))
        cur = R.fs.files.get(p)
        cur = bytes(cur) if cur is not None else None
        prev = r.get('previous')
        o = r['outcome']
        if o.get('ok'):
            continue    # content judged by C02
        renamed = any(k == 'fs.rename' and info.get('dst') == p
                      for (_, _, k, info) in R.trace.events)
        if is_cancel_exc(o.get('exc')):
            if cur != prev and not (renamed and cur == r['expect']):
                v.append((f'c06:{mode}:cancel-clobbered',
                          f'download {i} cancelled: destination is neither '
                          f'previous content nor (after a rename) the '
                          f'complete object'))
        elif cur != prev:
            v.append((f'c06:{mode}:failure-clobbered',
                      f'download {i} failed with '
                      f'{type(o.get("exc")).__name__}: previous '
                      f'destination content was not preserved'))
    return v


# ----------------------------------------------------------------- C07
def oracle_c07(R):
    from s3transfer.exceptions import CancelledError, FatalError
    v = []
    end = R.end
    if R.sched.deadlock:
        stuck = [r['i'] for r in R.all_recs() if r['future'] is not None
                 and cancel_sources(R, r)
                 and r['i'] not in R.announced]
        if stuck:
            v.append(('c07:cancelled-transfer-never-finished',
                      f'transfers {stuck} were cancelled but never finished: '
                      f'result()/shutdown() hang ({R.sched.deadlock})'))
        return v
    how = end.get('how')
    interrupted_end = any(st >= end.get('cancel_step', 1 << 60)
                          for (st, w, *_q) in R.sched.kbi_delivered)
    # (f) the entry point returns / re-raises only the interrupt
    if how in ('shutdown', 'shutdown_cancel'):
        ex = end.get('raised')
        if ex is not None and ex != 'KeyboardInterrupt':
            v.append((f'c07:{how}:raised:{type(ex).__name__}',
                      f'manager.shutdown raised {ex!r}'))
        if ex == 'KeyboardInterrupt' and not R.sched.kbi_delivered:
            v.append((f'c07:{how}:spurious-interrupt', 'KeyboardInterrupt '
                      'out of shutdown without a delivered Ctrl-C'))
    if not interrupted_end and (end.get('returned')
                                or how in ('with', 'with_exc', 'with_kbi')):
        dar = end.get('done_at_return') or []
        if any(d is False for d in dar):
            v.append((f'c07:{how}:returned-before-done',
                      f'entry point returned with futures done={dar}'))
    for r in R.transfers:
        o = r['outcome']
        if o is None or r['future'] is None:
            continue
        i = r['i']
        kind = kind_of(r)
        srcs = cancel_sources(R, r)
        e = o.get('exc')
        D = delivered_for(R, r)
        # cancellation error must carry the type and message of one of
        # the cancel actions that were issued
        if not o.get('ok') and is_cancel_exc(e):
            if not any(type(e) is t and str(e) == m for (t, m) in srcs):
                v.append((f'c07:{kind}:{how}:wrong-cancel-error',
                          f'transfer {i} ended with {type(e).__name__}'
                          f'({str(e)!r}); cancel actions issued: '
                          f'{[(t.__name__, m) for t, m in srcs]}'))
        # a transfer that was not done when a (non-racing) cancel reached it
        dac = (end.get('done_at_cancel') or [None] * (i + 1))
        end_cancels = how in ('shutdown_cancel', 'with_exc', 'with_kbi')
        if end_cancels and i < len(dac) and dac[i] is False and not D:
            # allowed: cancellation error, or success with complete effect
            if o.get('ok'):
                sym = content_violation(R, r)
                if sym:
                    v.append((f'c07:{kind}:{how}:success-incomplete-{sym}',
                              f'transfer {i} raced {how}: reported success '
                              f'but the effect is {sym}'))
            elif not is_cancel_exc(e):
                v.append((f'c07:{kind}:{how}:not-cancelled:'
                          f'{type(e).__name__}',
                          f'transfer {i} was not done at {how} and no fault '
                          f'was injected, but ended with {e!r}'))
        for c in R.cancel_log:
            if c['t'] != i or 'step' not in c:
                continue
            if not c['done_before'] and not D:
                if o.get('ok'):
                    sym = content_violation(R, r)
                    if sym:
                        v.append((f'c07:{kind}:future.cancel:success-'
                                  f'incomplete-{sym}',
                                  f'transfer {i} raced cancel(): reported '
                                  f'success but the effect is {sym}'))
                elif not is_cancel_exc(e):
                    v.append((f'c07:{kind}:future.cancel:not-cancelled:'
                              f'{type(e).__name__}',
                              f'transfer {i} not done at cancel(), no fault,'
                              f' ended with {e!r}'))
            if not c['done_before'] and not D and o.get('ok') and \
                    'end_step' in c and R.executors and \
                    not reenter_summary(R.case):
                # the cancel returned while no request/IO task of this
                # transfer was executing: every task that starts later must
                # skip its work, so the racing-final-step excuse is void
                e_ = c['end_step']
                busy = [it for k in (0, 2) if k < len(R.executors)
                        for it in R.executors[k].items
                        if it['transfer'] == i and it['start'] is not None
                        and it['start'] <= e_
                        and (it['end'] is None or it['end'] > e_)]
                if not busy and R.announced.get(i, -1) > e_:
                    v.append((f'c07:{kind}:future.cancel:cancel-ignored',
                              f'transfer {i}: cancel() returned at step '
                              f'{e_} with the transfer not done and none of '
                              f'its request/IO tasks executing, yet it '
                              f'finished successfully'))
            if c.get('before') is not None:
                b = c['before']
                same = (b[0] == 'ok' and o.get('ok')) or (
                    b[0] == 'exc' and o.get('exc') is b[1])
                if not same:
                    v.append((f'c07:{kind}:finished-result-changed',
                              f'transfer {i} had finished with {b} before '
                              f'cancel(); afterwards {o}'))
        # (c) not started when cancelled => no S3 request at all
        if not o.get('ok') and is_cancel_exc(e):
            fd = R.first_done.get(i)
            ts = R.task_start_step(i)
            if fd is not None and (ts is None or ts > fd):
                n = [c['op'] for c in calls_of(R, r)]
                if n:
                    v.append((f'c07:{kind}:requests-after-cancel-before-start',
                              f'transfer {i} was cancelled (step {fd}) before '
                              f'its submission task started ({ts}) yet issued '
                              f'{n}'))
    # Ctrl-C while the user is parked inside shutdown()/the with-exit: when
    # the user thread then runs uninterrupted (quiet schedule) the library's
    # reaction completes before any other thread runs, so a transfer that was
    # not done and had no request/IO task executing must end cancelled
    for (k, what, *q) in R.sched.kbi_delivered:
        if not (q and q[0]) or k < end.get('cancel_step', 1 << 60):
            continue
        if how not in ('shutdown', 'with', 'shutdown_cancel', 'with_exc'):
            continue
        if reenter_summary(R.case):
            continue
        for r in R.transfers:
            i = r['i']
            o = r['outcome']
            if o is None or r['future'] is None or delivered_for(R, r):
                continue
            if any(c['t'] == i for c in R.cancel_log):
                continue
            fd = R.first_done.get(i)
            if fd is not None and fd <= k:
                continue
            busy = [it for x in (0, 2) if x < len(R.executors)
                    for it in R.executors[x].items
                    if it['transfer'] == i and it['start'] is not None
                    and it['start'] <= k
                    and (it['end'] is None or it['end'] > k)]
            if not busy and o.get('ok') and R.executors:
                v.append((f'c07:{kind_of(r)}:ctrl-c-in-{what}:not-cancelled',
                          f'Ctrl-C was delivered at step {k} while the user '
                          f'was parked in {what} inside {how}; transfer {i} '
                          f'was not done and none of its request/IO tasks '
                          f'was executing, yet it ran to success instead of '
                          f'being cancelled'))
    # (e) cleanups
    for sig, msg in oracle_c05(R) + oracle_c06(R):
        v.append(('c07:cleanup:' + sig, msg))
    return v


# ----------------------------------------------------------------- C08
def oracle_c08(R):
    v = []
    evs = R.trace.events
    if R.sched.deadlock and R.in_on_done_result is not None:
        r = R.all_recs()[R.in_on_done_result]
        v.append((f'c08:{kind_of(r)}:result-blocks-in-on_done',
                  f'transfer {r["i"]}: result() called from on_done never '
                  f'returned (deadlock {R.sched.deadlock})'))
        return v
    for r in R.all_recs():
        if r['future'] is None or r['outcome'] is None:
            continue
        i = r['i']
        kind = kind_of(r)
        nsubs = len(r['subs'])
        if not nsubs:
            continue
        calls = calls_of(R, r)
        first_call = min([c['begin'] for c in calls
                          if c['begin'] is not None] or [None],
                         default=None) if calls else None
        q = {}
        d = {}
        prog_steps = []
        for (step, tid, k, info) in evs:
            if info.get('t') != i:
                continue
            if k == 'cb.queued':
                q.setdefault(info['s'], []).append(step)
            elif k == 'cb.done':
                d.setdefault(info['s'], []).append((step, info))
            elif k == 'cb.progress':
                prog_steps.append(step)
        cancelled = is_cancel_exc(r['outcome'].get('exc'))
        qfault = any(site == 'cb.on_queued'
                     for (_, site, _, _) in delivered_for(R, r))
        for s_ in range(nsubs):
            nq = len(q.get(s_, []))
            if nq > 1:
                v.append((f'c08:{kind}:on_queued-twice',
                          f'transfer {i} sub {s_}: on_queued ran {nq}x'))
            if nq == 0 and not qfault:
                if not (cancelled and not calls):
                    v.append((f'c08:{kind}:on_queued-missing',
                              f'transfer {i} sub {s_}: on_queued never ran '
                              f'(outcome {r["outcome"]}, calls '
                              f'{[c["op"] for c in calls]})'))
            if nq and first_call is not None and q[s_][0] > first_call:
                v.append((f'c08:{kind}:on_queued-after-request',
                          f'transfer {i} sub {s_}: on_queued at step '
                          f'{q[s_][0]} after first request at {first_call}'))
            nd = len(d.get(s_, []))
            if nd != 1:
                v.append((f'c08:{kind}:on_done-count={min(nd, 2)}',
                          f'transfer {i} sub {s_}: on_done ran {nd} times '
                          f'(outcome {"ok" if r["outcome"].get("ok") else type(r["outcome"].get("exc")).__name__})'))
                continue
            step, info = d[s_][0]
            if not info['done']:
                v.append((f'c08:{kind}:on_done-before-done',
                          f'transfer {i}: future.done() False in on_done'))
            if info['blocked']:
                v.append((f'c08:{kind}:result-blocks-in-on_done',
                          f'transfer {i}: result() still blocks in on_done'))
        if d:
            first_done_cb = min(st for lst in d.values() for (st, _) in lst)
            late = [c for c in calls if c['end'] is None
                    or c['end'] > first_done_cb]
            if late:
                v.append((f'c08:{kind}:on_done-before-{late[0]["op"]}-returned',
                          f'transfer {i}: on_done began at step '
                          f'{first_done_cb} while {late[0]["op"]} '
                          f'(begin {late[0]["begin"]}, end {late[0]["end"]}) '
                          f'had not returned'))
            if any(ps >= first_done_cb for ps in prog_steps):
                v.append((f'c08:{kind}:progress-after-on_done',
                          f'transfer {i}: on_progress delivered after '
                          f'on_done began ({first_done_cb})'))
            # file/stream operations of the transfer after on_done began
            path = r.get('fileobj') if isinstance(r.get('fileobj'), str) \
                else None
            for (step, tid, k, info) in evs:
                if step <= first_done_cb:
                    continue
                hit = False
                if k in ('src.read', 'src.seek', 'dst.write') and \
                        info.get('t') == i:
                    hit = True
                elif k.startswith('fs.') and path is not None:
                    pp = info.get('path') or info.get('dst') or ''
                    hit = temp_of(path, pp)
                if hit:
                    v.append((f'c08:{kind}:{k}-after-on_done',
                              f'transfer {i}: {k} at step {step} after '
                              f'on_done began at {first_done_cb}'))
                    break
            # the outcome seen in on_done is the final one
            outs = {repr(info['outcome']) for lst in d.values()
                    for (_, info) in lst}
        if r['type'] in ('download', 'copy'):
            provided = any(sp.get('size') for sp in
                           r['spec'].get('subs') or [])
            if provided and any(c['op'] == 'head_object' for c in calls):
                v.append((f'c08:{kind}:head-despite-size',
                          f'transfer {i}: size was provided in on_queued '
                          f'but head_object was called'))
    return v


# ----------------------------------------------------------------- C09
def oracle_c09(R):
    v = []
    for r in R.all_recs():
        if r['type'] == 'delete' or not r['outcome'] or not r['subs']:
            continue
        i = r['i']
        kind = kind_of(r)
        size = len(r['expect'])
        per = {}
        for (step, tid, k, info) in R.trace.events:
            if k == 'cb.progress' and info.get('t') == i:
                per.setdefault(info['s'], []).append(info['n'])
        pfault = any(site == 'cb.on_progress'
                     for (_, site, _, _) in delivered_for(R, r))
        for s_ in range(len(r['subs'])):
            seq = per.get(s_, [])
            run = 0
            for n in seq:
                run += n
                if run < 0 or run > size:
                    v.append((f'c09:{kind}:{mode_of(R, r)}:running-sum-'
                              f'{"negative" if run < 0 else "over"}',
                              f'transfer {i} sub {s_}: running progress sum '
                              f'{run} outside [0,{size}] (sequence {seq})'))
                    break
            if r['outcome'].get('ok') and not pfault and run != size \
                    and 0 <= run <= size:
                v.append((f'c09:{kind}:{mode_of(R, r)}:sum-mismatch',
                          f'transfer {i} sub {s_}: progress sums to {run}, '
                          f'size {size} (sequence {seq})'))
    return v


# ----------------------------------------------------------------- C10
DATA_OPS = ('put_object', 'get_object', 'copy_object', 'delete_object',
            'create_multipart_upload', 'upload_part', 'upload_part_copy',
            'complete_multipart_upload')


def max_overlap(intervals):
    pts = []
    for a, b in intervals:
        pts.append((a, 1))
        pts.append((b, -1))
    pts.sort(key=lambda x: (x[0], x[1]))
    cur = best = 0
    for _, d in pts:
        cur += d
        best = max(best, cur)
    return best


def oracle_c10(R):
    v = []
    cfg = cfg_of(R)
    serial = R.case.get('exec') == 'serial'
    big = R.sched.step + 1
    data = [(c['begin'], c['end'] if c['end'] is not None else big)
            for c in R.trace.calls
            if c['op'] in DATA_OPS and c['begin'] is not None]
    heads = [(c['begin'], c['end'] if c['end'] is not None else big)
             for c in R.trace.calls
             if c['op'] == 'head_object' and c['begin'] is not None]
    R.c10_peak = (max_overlap(data), max_overlap(heads))
    if R.c10_peak[0] > cfg['max_request_concurrency']:
        v.append(('c10:request-concurrency-exceeded',
                  f'{R.c10_peak[0]} transfer requests in flight > '
                  f'max_request_concurrency={cfg["max_request_concurrency"]}'))
    if R.c10_peak[1] > cfg['max_submission_concurrency']:
        v.append(('c10:submission-concurrency-exceeded',
                  f'{R.c10_peak[1]} head_object in flight > '
                  f'max_submission_concurrency='
                  f'{cfg["max_submission_concurrency"]}'))
    if not serial and len(R.executors) >= 3:
        ex = R.executors
        want = [cfg['max_request_concurrency'],
                cfg['max_submission_concurrency'], 1]
        for k, name in enumerate(('request', 'submission', 'io')):
            if ex[k].max_workers != want[k]:
                v.append((f'c10:{name}-executor-workers',
                          f'{name} executor built with max_workers='
                          f'{ex[k].max_workers}, configured {want[k]}'))
        lim = [cfg['max_request_queue_size']
               + cfg['max_in_memory_upload_chunks']
               + cfg['max_in_memory_download_chunks'],
               cfg['max_submission_queue_size'], cfg['max_io_queue_size']]
        for k, name in enumerate(('request', 'submission', 'io')):
            if ex[k].max_inflight > lim[k]:
                v.append((f'c10:{name}-queue-overrun',
                          f'{name} stage had {ex[k].max_inflight} queued-or-'
                          f'running tasks > limit {lim[k]}'))
        for c in R.trace.calls:
            if c['op'] in DATA_OPS and c['role'] != ('executor', 0):
                v.append((f'c10:{c["op"]}-outside-request-stage',
                          f'{c["op"]} issued from thread role {c["role"]}'))
                break
        for c in R.trace.calls:
            if c['op'] == 'head_object' and c['role'] != ('executor', 1):
                v.append(('c10:head-outside-submission-stage',
                          f'head_object issued from role {c["role"]}'))
                break
    # writes to one destination: one thread at a time
    for r in R.all_recs():
        if r['type'] != 'download':
            continue
        fo = r['fileobj']
        if not isinstance(fo, str) and fo.overlap:
            v.append(('c10:overlapping-writes',
                      f'download {r["i"]}: two writes to the destination '
                      f'stream were in progress at once'))
    from s3transfer.utils import NoResourcesAvailable
    for r in R.all_recs():
        for e in (r.get('submit_exc'), (r['outcome'] or {}).get('exc')):
            if isinstance(e, NoResourcesAvailable):
                v.append(('c10:submitter-failed-instead-of-blocking',
                          f'transfer {r["i"]}: {e!r}'))
    return v


# ----------------------------------------------------------------- C11
def oracle_c11(R):
    v = []
    cfg = cfg_of(R)
    U = cfg['max_in_memory_upload_chunks']
    S = cfg['max_submission_concurrency']
    Dn = cfg['max_in_memory_download_chunks']
    thr = cfg['multipart_threshold']
    evs = R.trace.events
    R.c11_reached = False
    # ---- uploads from streams (multipart)
    ups = [r for r in R.all_recs() if r['type'] == 'upload'
           and r['spec']['src'] in ('seek', 'nonseek')
           and mode_of(R, r) == 'multipart']
    if ups:
        idx = {r['i'] for r in ups}
        keys = {r['key']: r for r in ups}
        eff = 1
        for r in ups:
            for u in uploads_of(R, r):
                for c in u.log:
                    if c['op'] == 'upload_part' and 'body_len' in c:
                        eff = max(eff, c['body_len'])
        eff = max(eff, cfg['multipart_chunksize'])
        # when no part request was observed (failure / cancel before the
        # first one) fall back on the oracle's own reading of the adjuster:
        # clamp to the part-size limits, double while too many parts
        lo, hi, mp = R.case.get('adj') or [5 * 1024 ** 2, 5 * 1024 ** 3,
                                           10000]
        for r in ups:
            size = r['spec'].get('size') or 0
            # (either order of the two adjustments; the larger result)
            c = min(max(cfg['multipart_chunksize'], lo), hi)
            eff = max(eff, c)
            while c < hi and -(-size // c) > mp:
                c = min(2 * c, hi)
            eff = max(eff, c)
            c = cfg['multipart_chunksize']
            while c < hi and -(-size // c) > mp:
                c = 2 * c
            eff = max(eff, min(max(c, lo), hi))
        bound = (U + S) * max(eff, thr)
        timeline = []
        for (step, tid, k, info) in evs:
            if k == 'src.read' and info.get('t') in idx and info['n'] > 0:
                timeline.append((step, 0, info['n'], info['t']))
                if info['n'] > max(eff, thr):
                    v.append(('c11:upload-buffer-too-large',
                              f'read of {info["n"]} bytes from the user '
                              f'stream > max(chunk {eff}, threshold {thr})'))
        ended = set()
        for c in R.trace.calls:
            if c['op'] == 'upload_part' and c['key'] in keys and \
                    c['end'] is not None:
                n = (c.get('attempts') or [0])[-1] if 'body_len' not in c \
                    else c['body_len']
                timeline.append((c['end'], 1, -c.get('body_len', 0),
                                 keys[c['key']]['i']))
        # only judge while every stream upload is still alive (a failed
        # transfer drops its buffers without a request finishing)
        stop = min([R.first_done.get(r['i'], 1 << 60) for r in ups
                    if not (r['outcome'] or {}).get('ok')] or [1 << 60])
        # (with the serial executor the future only exists once the whole
        # transfer has run: the first delivered fault marks the failure)
        for r in ups:
            if not (r['outcome'] or {}).get('ok'):
                for (step, _, _, _) in delivered_for(R, r):
                    stop = min(stop, step)
        timeline.sort()
        cur = 0
        peak = 0
        for (step, _, n, t) in timeline:
            if step >= stop:
                break
            cur += n
            peak = max(peak, cur)
        if peak >= bound - max(eff, thr):
            R.c11_reached = True
        if peak > bound:
            v.append(('c11:upload-buffering-exceeded',
                      f'{peak} bytes read from user streams were awaiting a '
                      f'finished part request; bound (U={U}+S={S})*'
                      f'max(chunk={eff},thr={thr})={bound}'))
    # ---- in-memory part tasks in flight (whatever the outcome): every
    # UploadPartTask of a stream upload holds one part-sized buffer from its
    # submission to its end, and the in-memory tag admits at most U of them
    if ups and R.executors and not getattr(R, 'serial', False):
        tids = {}
        for r in ups:
            f = r.get('future')
            if f is not None:
                tids[f.meta.transfer_id] = r['i']
        tl2 = []
        for it in R.executors[0].items:
            if it.get('task') == 'UploadPartTask' and \
                    it.get('transfer') in tids:
                tl2.append((it['submit'], 1, 1))
                if it['end'] is not None:
                    tl2.append((it['end'], 0, -1))
        tl2.sort()
        cur = peak = 0
        for (_, _, d) in tl2:
            cur += d
            peak = max(peak, cur)
        if peak >= U:
            R.c11_reached = True
        if peak > U:
            v.append(('c11:upload-inflight-parts-exceeded',
                      f'{peak} in-memory part tasks of stream uploads were '
                      f'queued or running at once; max_in_memory_upload_'
                      f'chunks={U}'))
    # ---- downloads to non-seekable destinations
    downs = [r for r in R.all_recs() if r['type'] == 'download'
             and r['spec']['dst'] in ('nonseek', 'special')
             and mode_of(R, r) == 'ranged']
    if downs:
        chunk = cfg['multipart_chunksize']
        # events: request begin of part k; part k fully delivered
        tl = []
        for r in downs:
            for c in R.trace.calls:
                if c['op'] == 'get_object' and c['key'] == r['key'] and \
                        c['begin'] is not None and 'range_start' in c:
                    tl.append((c['begin'], 'req', r['i'],
                               c['range_start'] // chunk))
        for (step, tid, k, info) in evs:
            if k == 's3.stream':
                c = R.trace.calls[info['call'] - 1]
                if c['op'] == 'get_object' and info['pos'] == \
                        c.get('range_len') and c['key'] in {
                            r['key'] for r in downs}:
                    i = next(r['i'] for r in downs if r['key'] == c['key'])
                    tl.append((step, 'fin', i, c['range_start'] // chunk))
        for r in downs:
            # a transfer that failed / was cancelled stops counting from the
            # step it became done (its tasks release their tokens as they
            # notice; dropping its contribution only weakens the check)
            if not (r['outcome'] or {}).get('ok'):
                fd = R.first_done.get(r['i'])
                if fd is not None:
                    tl.append((fd, 'dead', r['i'], 0))
        order = {'fin': 0, 'dead': 0, 'req': 1}
        tl.sort(key=lambda x: (x[0], order[x[1]]))
        req = {}
        fin = {}
        dead = set()
        worst = 0
        for (step, what, i, k) in tl:
            if what == 'req':
                req.setdefault(i, set()).add(k)
            elif what == 'dead':
                dead.add(i)
            else:
                fin.setdefault(i, set()).add(k)
            total = 0
            for j, q in req.items():
                if j in dead:
                    continue
                f = fin.get(j, set())
                low = 0
                while low in f:
                    low += 1
                hi = max(q)
                w = hi - low + 1
                if w > 0:
                    total += w
                    if w > Dn:
                        v.append(('c11:download-window-exceeded',
                                  f'download {j}: part {hi} requested while '
                                  f'lowest unfinished part is {low}; window '
                                  f'{w} > max_in_memory_download_chunks={Dn}'))
            worst = max(worst, total)
            if total > Dn:
                v.append(('c11:download-window-sum-exceeded',
                          f'sum of windows over non-seekable downloads '
                          f'{total} > {Dn}'))
            if v and v[-1][0].startswith('c11:download-window'):
                break
        if worst >= Dn:
            R.c11_reached = True
    # ---- pending destination writes
    ioc = cfg['io_chunksize']
    for (step, tid, k, info) in evs:
        if k in ('dst.write', 'fs.write') and info.get('n', 0) > ioc:
            if k == 'fs.write' and not any(
                    isinstance(r.get('fileobj'), str)
                    and temp_of(r['fileobj'], info['path'])
                    and r['type'] == 'download' for r in R.all_recs()):
                continue
            v.append(('c11:write-larger-than-io-chunksize',
                      f'{k} of {info["n"]} bytes > io_chunksize {ioc}'))
            break
    if R.case.get('exec') != 'serial' and len(R.executors) >= 3:
        if R.executors[2].max_inflight > cfg['max_io_queue_size']:
            v.append(('c11:io-queue-overrun',
                      f'{R.executors[2].max_inflight} pending destination '
                      f'writes > max_io_queue_size={cfg["max_io_queue_size"]}'))
        if R.executors[2].max_inflight >= cfg['max_io_queue_size']:
            R.c11_reached = True
    return v


# ----------------------------------------------------------------- C12c/C18
def semaphore_state(R):
    """[(name, current, configured)] for every semaphore of the manager, or
    None when the internals cannot be read (then nothing is claimed)."""
    mgr = getattr(R, 'mgr', None)
    if mgr is None:
        return None
    cfg = cfg_of(R)
    out = []
    try:
        from s3transfer.futures import (IN_MEMORY_UPLOAD_TAG,
                                        IN_MEMORY_DOWNLOAD_TAG)

        def val(sem):
            if hasattr(sem, 'current_count'):
                return sem.current_count()
            inner = sem._semaphore
            return inner._value
        out.append(('request-queue', val(mgr._request_executor._semaphore),
                    cfg['max_request_queue_size']))
        out.append(('submission-queue',
                    val(mgr._submission_executor._semaphore),
                    cfg['max_submission_queue_size']))
        out.append(('io-queue', val(mgr._io_executor._semaphore),
                    cfg['max_io_queue_size']))
        tags = mgr._request_executor._tag_semaphores
        out.append(('in-memory-upload', val(tags[IN_MEMORY_UPLOAD_TAG]),
                    cfg['max_in_memory_upload_chunks']))
        out.append(('in-memory-download', val(tags[IN_MEMORY_DOWNLOAD_TAG]),
                    cfg['max_in_memory_download_chunks']))
    except Exception:
        return None
    return out


def oracle_quiescence(R):
    v = []
    if R.sched.deadlock or R.sched.budget_exceeded:
        return v
    if any(r['future'] is not None and r['outcome'] is None
           for r in R.all_recs()):
        return v
    st = R.sem_state
    if st is None:
        return v
    for name, cur, conf in st:
        if cur != conf:
            v.append((f'quiescence:{name}-permits',
                      f'{name} semaphore at {cur} after all transfers '
                      f'finished; configured {conf}'))
    return v


def oracle_c18(R):
    v = []
    end = R.end
    interrupted = bool(R.sched.kbi_delivered)
    # isolation: transfers nobody touched must succeed with exact bytes
    for r in R.all_recs():
        if r['future'] is None or r['outcome'] is None:
            continue
        i = r['i']
        touched = bool(delivered_for(R, r)) or bool(cancel_sources(R, r))
        if touched:
            continue
        kind = kind_of(r)
        if not r['outcome'].get('ok'):
            v.append((f'c18:{kind}:neighbour-changed-outcome',
                      f'transfer {i} had no fault and no cancel addressed to '
                      f'it but ended with {r["outcome"].get("exc")!r}'))
        else:
            sym = content_violation(R, r)
            if sym:
                v.append((f'c18:{kind}:neighbour-changed-bytes-{sym}',
                          f'transfer {i} (untouched) succeeded with {sym} '
                          f'content'))
    # barrier
    ret = end.get('return_step')
    if ret is not None and not interrupted and (
            end.get('returned') or str(end.get('how', '')).startswith('with')):
        dar = end.get('done_at_return') or []
        if any(d is False for d in dar):
            v.append(('c18:returned-before-done',
                      f'shutdown returned with futures done={dar}'))
        fin = end.get('final_step', ret)
        # a callback that runs inside a user thread's own cancel() call
        # (still executing when shutdown returns elsewhere) is that thread's
        # business, not the manager's: only manager threads are judged
        user_tids = {t.tid for t in R.sched.threads if t.role == 'canceller'}
        for (step, tid, k, info) in R.trace.events:
            if tid in user_tids:
                continue
            if step > ret and (k.startswith(('s3.', 'fs.', 'dst.', 'src.',
                                             'cb.'))):
                v.append((f'c18:{k}-after-shutdown',
                          f'{k} {info} at step {step} after shutdown '
                          f'returned at {ret}'))
                break
        if end.get('executors_left_running'):
            v.append(('c18:threads-alive-after-shutdown',
                      f'{end["executors_left_running"]} executors running '
                      f'after shutdown returned'))
    v += oracle_quiescence(R)
    return v


# ----------------------------------------------------------------- C14
def _ceil_div(a, b):
    return -(-a // b)


def _copy_ranges(R, r):
    import re
    out = {}
    for c in calls_of(R, r):
        if c['op'] == 'upload_part_copy':
            m = re.match(r'^bytes=(\d+)-(\d+)$',
                         str(c['kwargs'].get('CopySourceRange')))
            pn = c['kwargs'].get('PartNumber')
            if pn not in out:
                out[pn] = (int(m.group(1)), int(m.group(2))) if m else None
    return out


def oracle_c14(R):
    import re
    v = []
    for r in R.all_recs():
        # CopySourceRange headers are judged on the requests as issued,
        # whether or not the service accepted them
        if r['type'] != 'copy' or delivered_for(R, r) or \
                cancel_sources(R, r):
            continue
        rr = _copy_ranges(R, r)
        if not rr:
            continue
        size = len(r['expect'])
        nums = sorted(rr)
        bad = None
        if nums != list(range(1, len(nums) + 1)):
            bad = f'part numbers {nums}'
        nxt = 0
        for n in nums:
            if bad:
                break
            if rr[n] is None:
                bad = f'part {n}: malformed CopySourceRange'
            elif rr[n][0] != nxt or rr[n][1] < rr[n][0]:
                bad = f'part {n}: range {rr[n]} expected to start at {nxt}'
            else:
                nxt = rr[n][1] + 1
        if not bad and nxt != size:
            bad = f'ranges end at byte {nxt - 1}, object has {size} bytes'
        if bad:
            v.append((f'c14:copy:-:copy-ranges',
                      f'copy {r["i"]} size {size}: {bad} ({rr})'))
    cfg = cfg_of(R)
    thr = cfg['multipart_threshold']
    chunk = cfg['multipart_chunksize']
    adj = R.case.get('adj') or [5 * 1024 ** 2, 5 * 1024 ** 3, 10000]
    lo, hi, mp = adj
    for r in R.all_recs():
        if r['type'] == 'delete' or not (r['outcome'] or {}).get('ok'):
            continue
        i = r['i']
        kind = kind_of(r)
        size = len(r['expect'])
        mode = mode_of(R, r)
        want_multi = size >= thr
        if (mode in ('multipart', 'ranged')) != want_multi:
            v.append((f'c14:{kind}:mode',
                      f'transfer {i}: size {size}, threshold {thr}: mode '
                      f'{mode}'))
            continue
        calls = calls_of(R, r)
        if r['type'] == 'download' and mode == 'ranged':
            rngs = []
            for c in calls:
                if c['op'] == 'get_object' and c.get('attempt') == 0:
                    m = re.match(r'^bytes=(\d+)-(\d*)$',
                                 c['kwargs'].get('Range', ''))
                    if not m:
                        v.append((f'c14:{kind}:range-syntax',
                                  f'{c["kwargs"].get("Range")!r}'))
                        continue
                    rngs.append((int(m.group(1)),
                                 int(m.group(2)) if m.group(2) else None))
            rngs.sort()
            nxt = 0
            bad = None
            for k, (a, b) in enumerate(rngs):
                if a != nxt:
                    bad = f'range {k} starts at {a}, expected {nxt}'
                    break
                if b is None:
                    if k != len(rngs) - 1:
                        bad = f'open-ended range {k} is not the last'
                        break
                    nxt = size
                else:
                    nxt = b + 1
            if bad is None and nxt != size:
                bad = f'ranges end at {nxt}, object size {size}'
            if bad is None and len(rngs) != _ceil_div(size, chunk):
                bad = (f'{len(rngs)} ranges, expected '
                       f'{_ceil_div(size, chunk)}')
            if bad:
                v.append((f'c14:{kind}:ranges',
                          f'download {i} size {size} chunk {chunk}: {bad} '
                          f'({rngs})'))
        if r['type'] in ('upload', 'copy') and mode == 'multipart':
            ups = uploads_of(R, r)
            if len(ups) != 1:
                continue
            u = ups[0]
            parts = getattr(u, 'final_parts', [])
            nums = [p['PartNumber'] for p in parts]
            if nums != list(range(1, len(nums) + 1)):
                v.append((f'c14:{kind}:part-numbers', f'{nums}'))
                continue
            lens = [len(u.parts[n]['data']) for n in nums]
            if sum(lens) != size or any(x <= 0 for x in lens):
                v.append((f'c14:{kind}:part-sizes-sum',
                          f'part sizes {lens} for size {size}'))
                continue
            eff = lens[0]
            if any(x != eff for x in lens[:-1]) or lens[-1] > eff:
                v.append((f'c14:{kind}:part-sizes-uneven',
                          f'part sizes {lens}'))
            if len(lens) > 1 or size >= lo:
                if not (lo <= eff <= hi) and len(lens) > 1:
                    v.append((f'c14:{kind}:part-size-limits',
                              f'effective part size {eff} outside '
                              f'[{lo},{hi}] (size {size}, chunk {chunk})'))
            size_known = not (r['type'] == 'upload'
                              and r['spec'].get('src') == 'nonseek'
                              and not any(sp.get('size') for sp in
                                          r['spec'].get('subs') or []))
            # a non-seekable stream of undeclared size cannot be planned for
            # max_parts (the size is not known to anybody); see DESIGN 3.15
            if size_known and size <= hi * mp and len(lens) > mp:
                v.append((f'c14:{kind}:too-many-parts',
                          f'{len(lens)} parts > {mp}'))
            okc = lo <= chunk <= hi and (
                _ceil_div(size, chunk) <= mp or not size_known)
            if okc and len(lens) > 1 and eff != chunk:
                v.append((f'c14:{kind}:chunk-changed-needlessly',
                          f'configured chunk {chunk} satisfies the limits '
                          f'but parts are {eff} bytes'))
    return v


# ----------------------------------------------------------------- C13 e2e
def oracle_c13_e2e(R):
    v = []
    bwv = cfg_of(R).get('max_bandwidth')
    thr = R.case.get('bw_threshold') or 256 * 1024
    for r in R.all_recs():
        if (r['outcome'] or {}).get('ok'):
            sym = content_violation(R, r)
            if sym:
                v.append((f'c13:e2e:{kind_of(r)}:content-{sym}',
                          f'transfer {r["i"]} under max_bandwidth: {sym}'))
    for (step, tid, d, clk, unbilled) in R.bw_sleeps:
        if unbilled:
            v.append(('c13:e2e:signing-read-throttled',
                      f'a sleep of {d}s was requested during a signing / '
                      f'pre-flight read (not a transfer)'))
            break
    if not bwv:
        return v
    clean = all((r['outcome'] or {}).get('ok') and not delivered_for(R, r)
                and not cancel_sources(R, r) for r in R.all_recs())
    moved = getattr(R.sched, 'bw_moved', None)
    if clean and moved is not None and R.sched.bw_consumed < moved:
        v.append(('c13:e2e:moved-bytes-not-charged',
                  f'{moved} bytes passed through bandwidth-limited streams '
                  f'but only {R.sched.bw_consumed} were charged to the '
                  f'bucket'))
    ev = []
    calls = set()
    for (step, tid, k, info) in R.trace.events:
        if k in ('s3.sent', 's3.stream'):
            ev.append((info['clk'], info['n']))
            calls.add(info['call'])
    ev.sort()
    if ev:
        largest = max(n for _, n in ev)
        burst = 3 * (thr + largest) * cfg_of(R)['max_request_concurrency']
        # a stream that ends with a fault before it reached the read
        # threshold is never charged (its attempt is over): each such attempt
        # is one more "active stream" of the statement, with a residue below
        # one threshold
        per_call = {}
        for (step, tid, k, info) in R.trace.events:
            if k == 's3.stream':
                per_call[info['call']] = per_call.get(info['call'], 0) \
                    + info['n']
        for c in R.trace.calls:
            if c.get('stream_fault') is not None and c['id'] in per_call:
                burst += min(per_call[c['id']], thr)
        pre = [0]
        for _, n in ev:
            pre.append(pre[-1] + n)
        for a in range(len(ev)):
            for b in range(a, len(ev)):
                B = pre[b + 1] - pre[a]
                T = ev[b][0] - ev[a][0]
                if B > (1.25 * bwv * T + burst) * (1 + 1e-9):
                    v.append(('c13:e2e:rate-exceeded',
                              f'{B} bytes moved by the manager in {T:.4f}s; '
                              f'max_bandwidth {bwv} B/s, burst {burst}'))
                    return v
    return v
