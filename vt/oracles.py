"""Oracles over the Result of an end-to-end run: Result -> [(signature, msg)].

Each oracle demands what its property states and nothing more (DESIGN 3).
"""
from .fakes3 import InjectedFault


def role_name(t):
    n = t[1]
    return ''.join(ch for ch in n if not ch.isdigit())


def sig_deadlock(R):
    dl = R.sched.deadlock or []
    if any(len(x) > 3 and x[3] == x[0] for x in dl):
        return 'deadlock:self-relock'
    parts = sorted({f'{role_name(x)}@{x[2]}' for x in dl})
    return 'deadlock:' + ','.join(parts)


def reenter_summary(case):
    ops = set()
    for t in case['transfers']:
        for s in t.get('subs') or []:
            for w, lst in (s.get('reenter') or {}).items():
                for op in lst:
                    ops.add(f'{w}.{op}')
    return sorted(ops)


# ----------------------------------------------------------------- C04
def oracle_c04(R):
    v = []
    s = R.sched
    if s.deadlock:
        re = reenter_summary(R.case)
        sig = sig_deadlock(R)
        v.append((sig, f'deadlock state: blocked threads {s.deadlock}; '
                       f're-entrant subscriber ops in case: {re}'))
        return v
    if s.budget_exceeded:
        return v   # handled by the livelock re-run in the check
    end = R.end
    interrupted = bool(s.kbi_delivered)
    if (end.get('returned') or end.get('how', '').startswith('with')) \
            and not interrupted:
        dar = end.get('done_at_return')
        if dar is not None and any(d is False for d in dar):
            v.append(('not-done-after-shutdown',
                      f'shutdown/with-exit returned at step '
                      f'{end.get("return_step")} but futures done={dar}'))
        if end.get('executors_left_running'):
            v.append(('threads-alive-after-shutdown',
                      f'{end["executors_left_running"]} executors still '
                      f'running after shutdown returned'))
    for r in R.transfers:
        if r['future'] is not None and r['outcome'] is None:
            v.append(('result-never-returned',
                      f'transfer {r["i"]}: result() did not return'))
    return v
