"""Deterministic cooperative scheduler.

Controlled threads are real OS threads passing a baton, so exactly one runs at
a time and ordinary blocking library code needs no rewriting.  Which thread
runs next at each *scheduling point* is decided by a policy object built from
generated data (a list of ints, or PCT priorities), so a schedule is an input
like any other: replayable and shrinkable.

The module also provides drop-in replacements for the `threading` and `time`
names that s3transfer modules use, and an executor class with
ThreadPoolExecutor semantics, all driven by the scheduler.
"""
import threading as _rt
import logging

log = logging.getLogger('vt.detsched')


class SchedAbort(BaseException):
    """Raised inside controlled threads to unwind them (deadlock, budget)."""


class HarnessError(Exception):
    """The harness itself misbehaved (never a property violation)."""


class CThread:
    __slots__ = (
        'tid', 'name', 'role', 'baton', 'pred', 'alive', 'wake_at', 'exc',
        'interruptible', 'kbi_at', 'what', 'os', 'fn', 'result', 'started',
        'finished_step', 'waiting_on', 'last_wait_blocked', 'urgent',
    )

    def __init__(self, tid, name, role, fn):
        self.tid = tid
        self.name = name
        self.role = role
        self.fn = fn
        self.baton = _rt.Semaphore(0)
        self.pred = None
        self.alive = True
        self.wake_at = None
        self.exc = None
        self.interruptible = False
        self.kbi_at = None
        self.what = 'start'
        self.result = None
        self.started = False
        self.finished_step = None
        self.waiting_on = None
        self.last_wait_blocked = None
        self.urgent = False

    def __repr__(self):
        return f'<T{self.tid} {self.name} {self.what}>'


# --------------------------------------------------------------------------
# policies
# --------------------------------------------------------------------------
class WalkPolicy:
    """choices[i] picks among the enabled threads at the i-th *real* choice
    (two or more enabled).  0 = keep running the current thread (or the lowest
    thread id if it is blocked); k>0 = the k-th other enabled thread."""

    def __init__(self, choices):
        self.choices = list(choices)
        self.i = 0

    def pick(self, sched, enabled, cur):
        if len(enabled) == 1:
            return enabled[0]
        k = self.choices[self.i] if self.i < len(self.choices) else 0
        self.i += 1
        if cur in enabled:
            j = enabled.index(cur)
            order = enabled[j:] + enabled[:j]
        else:
            order = enabled
        return order[k % len(order)]


def policy_quiet(policy, sched=None):
    """True when the policy will never again switch away from a running
    thread that stays enabled (so the current thread runs until it parks)."""
    if sched is not None and getattr(sched, 'has_line_preemption', False):
        return False
    if isinstance(policy, WalkPolicy):
        return all(k == 0 for k in policy.choices[policy.i:])
    if isinstance(policy, PreemptPolicy):
        return all(i < policy.i for i in policy.preempts)
    return False


class PCTPolicy:
    """PCT-style: every thread has a priority (by spawn order, from a drawn
    list); the highest-priority enabled thread always runs; at each drawn
    change point (counted in real choices) the running thread drops to the
    lowest priority.  Reaches 'thread X starved for a long stretch'."""

    def __init__(self, prios, changes):
        self.prios = list(prios) or [0]
        self.changes = set(changes)
        self.i = 0
        self.low = -1
        self.assigned = {}

    def _prio(self, t):
        p = self.assigned.get(t.tid)
        if p is None:
            p = self.prios[t.tid % len(self.prios)]
            self.assigned[t.tid] = p
        return p

    def pick(self, sched, enabled, cur):
        if len(enabled) == 1:
            return enabled[0]
        self.i += 1
        if self.i in self.changes and cur is not None:
            self.assigned[cur.tid] = self.low
            self.low -= 1
        best = None
        bp = None
        for t in enabled:
            p = self._prio(t)
            if best is None or p > bp:
                best, bp = t, p
        return best


class PreemptPolicy:
    """Bounded preemption: run the current thread until it blocks, except at
    the drawn (choice-index -> k) preemption points."""

    def __init__(self, preempts):
        self.preempts = dict(preempts)
        self.i = 0

    def pick(self, sched, enabled, cur):
        if len(enabled) == 1:
            return enabled[0]
        i = self.i
        self.i += 1
        if cur in enabled:
            j = enabled.index(cur)
            order = enabled[j:] + enabled[:j]
        else:
            order = enabled
        k = self.preempts.get(i, 0)
        return order[k % len(order)]


def make_policy(spec):
    """spec: {'mode': 'walk', 'choices': [...]} | {'mode': 'pct', 'prios':
    [...], 'changes': [...]} | {'mode': 'preempt', 'at': [[i,k],...]}"""
    if not spec:
        return WalkPolicy([])
    m = spec.get('mode', 'walk')
    if m == 'walk':
        return WalkPolicy(spec.get('choices', []))
    if m == 'pct':
        return PCTPolicy(spec.get('prios', [0]), spec.get('changes', []))
    if m == 'preempt':
        return PreemptPolicy([(int(a), int(b)) for a, b in spec.get('at', [])])
    raise HarnessError(f'unknown schedule mode {m}')


# --------------------------------------------------------------------------
# scheduler
# --------------------------------------------------------------------------
class Scheduler:
    def __init__(self, policy=None, max_steps=200000, wall_timeout=120.0):
        self.policy = policy or WalkPolicy([])
        self.max_steps = max_steps
        self.wall_timeout = wall_timeout
        self.threads = []
        self.cur = None
        self.label_counts = {}
        self.step = 0
        self.nchoices = 0
        self.clock = 1000.0
        self.aborting = False
        self.deadlock = None       # description of the deadlock state
        self.budget_exceeded = False
        self.max_blocked = 0       # max number of simultaneously blocked thr.
        self._all_done = _rt.Event()
        self.step_hooks = []       # callables(sched) run at every point
        self.sleep_log = []        # (step, tid, duration)
        self.kbi_delivered = []    # (step, what) of harness-delivered Ctrl-C
        self.cond_waiters = []     # names of threads that parked in a
                                   # Condition.wait, in order
        self.unbilled = set()      # tids inside a signing / pre-flight read
        self.tick = 0.0            # virtual time added at every point
        self.busy = False          # inside the scheduler (see point())
        self.errors = []           # uncaught exceptions of controlled threads

    # -- thread management ---------------------------------------------
    def spawn(self, fn, name='t', role=None):
        t = CThread(len(self.threads), name, role, fn)
        t.os = _rt.Thread(target=self._bootstrap, args=(t,), daemon=True,
                          name=f'vt-{t.tid}-{name}')
        self.threads.append(t)
        t.os.start()
        return t

    def _bootstrap(self, t):
        t.baton.acquire()
        t.started = True
        try:
            if not self.aborting:
                t.what = 'run'
                t.result = t.fn()
        except SchedAbort:
            pass
        except BaseException as e:  # noqa
            t.exc = e
            self.errors.append((t.name, e))
        finally:
            t.alive = False
            t.what = 'dead'
            t.finished_step = self.step
            self._on_exit(t)

    def _on_exit(self, t):
        # hand the baton on; called in t's OS thread as its last action
        self.busy = True
        if self.aborting:
            nxt = next((x for x in self.threads if x.alive), None)
            if nxt is None:
                self._all_done.set()
            else:
                self.cur = nxt
                nxt.baton.release()
            return
        nxt = self._choose(None)
        if nxt is None:
            if any(x.alive for x in self.threads):
                self._begin_abort_from_exit()
            else:
                self._all_done.set()
            return
        self.cur = nxt
        nxt.baton.release()

    def _begin_abort_from_exit(self):
        self._record_deadlock()
        self.aborting = True
        nxt = next((x for x in self.threads if x.alive), None)
        if nxt is None:
            self._all_done.set()
        else:
            self.cur = nxt
            nxt.baton.release()

    def _record_deadlock(self):
        if self.deadlock is None and not self.budget_exceeded:
            self.deadlock = []
            for x in self.threads:
                if not x.alive:
                    continue
                w = x.waiting_on
                own = getattr(w, '_owner', None) if w is not None else None
                self.deadlock.append(
                    (x.tid, x.name, x.what,
                     own.tid if own is not None else None))

    def run(self, main_fn, name='user'):
        """Run main_fn as controlled thread 0; returns when every controlled
        thread has finished (or was unwound)."""
        t = self.spawn(main_fn, name, role='user')
        self.cur = t
        t.baton.release()
        if not self._all_done.wait(self.wall_timeout):
            # Harness problem (or an uncontrolled blocking call).  Try to
            # unwind, and report as harness error.
            self.aborting = True
            raise HarnessError(
                'wall-clock timeout in scheduler.run: '
                + repr([(x.tid, x.name, x.what, x.alive) for x in self.threads])
            )
        return t

    # -- choosing ---------------------------------------------------------
    def _enabled(self):
        out = []
        for t in self.threads:
            if not t.alive:
                continue
            p = t.pred
            if p is None or p():
                out.append(t)
            elif (t.kbi_at is not None and t.interruptible
                  and self.step >= t.kbi_at):
                out.append(t)
        return out

    def _choose(self, cur):
        enabled = self._enabled()
        if not enabled:
            # advance virtual time to the earliest sleeper
            wakes = [t.wake_at for t in self.threads
                     if t.alive and t.wake_at is not None]
            if wakes:
                self.clock = max(self.clock, min(wakes))
                enabled = self._enabled()
        if not enabled:
            return None
        nblocked = sum(1 for t in self.threads if t.alive) - len(enabled)
        if nblocked > self.max_blocked:
            self.max_blocked = nblocked
        # harness threads waiting for a trigger (a drawn step / event) run as
        # soon as the trigger fires, so that the action lands where it was
        # drawn to land instead of whenever the policy gets round to it
        for t in enabled:
            if t.urgent and t is not cur:
                return t
        if len(enabled) > 1:
            self.nchoices += 1
        return self.policy.pick(self, enabled, cur)

    # -- the scheduling point ------------------------------------------
    def point(self, pred=None, what='', interruptible=False, wake_at=None,
              force_switch=False, prefer=None, urgent=False, force_pick=None):
        # line events raised while the scheduler itself runs code of the
        # library (predicates, hooks) must not re-enter the scheduler
        self.busy = True
        try:
            return self._point(pred, what, interruptible, wake_at,
                               force_switch, prefer, urgent, force_pick)
        finally:
            self.busy = False

    def _point(self, pred, what, interruptible, wake_at, force_switch,
               prefer, urgent, force_pick=None):
        c = self.cur
        if self.aborting:
            raise SchedAbort()
        self.step += 1
        # how often each kind of scheduling point was reached (harness
        # threads can wait for "the k-th fs.write" and run before its effect)
        lc = self.label_counts
        lc[what] = lc.get(what, 0) + 1
        if self.tick:
            self.clock += self.tick
        if self.step > self.max_steps:
            self.budget_exceeded = True
            self.aborting = True
            raise SchedAbort()
        if self.step_hooks:
            for h in self.step_hooks:
                h(self)
        c.pred = pred
        c.what = what
        c.interruptible = interruptible
        c.wake_at = wake_at
        c.urgent = urgent
        nxt = self._choose(c)
        if force_switch and nxt is c:
            others = [t for t in self._enabled() if t is not c]
            if others:
                k = self.step if force_pick is None else force_pick
                nxt = others[k % len(others)]
        if prefer is not None and prefer.alive and nxt is not None and (
                prefer.pred is None or prefer.pred()):
            nxt = prefer
        if nxt is None:
            self._record_deadlock()
            self.aborting = True
            c.pred = None
            raise SchedAbort()
        if nxt is not c:
            self.cur = nxt
            nxt.baton.release()
            c.baton.acquire()
            # resumed
            if self.aborting:
                c.pred = None
                raise SchedAbort()
        got = pred is None or pred()
        c.urgent = False
        c.pred = None
        c.wake_at = None
        c.interruptible = False
        c.what = 'run'
        if not got:
            # only possible through an interrupt
            if c.kbi_at is not None and self.step >= c.kbi_at:
                c.kbi_at = None
                self.kbi_delivered.append((self.step, what,
                                           policy_quiet(self.policy, self)))
                raise KeyboardInterrupt()
            raise HarnessError('resumed with false predicate')
        if interruptible and c.kbi_at is not None and self.step >= c.kbi_at:
            c.kbi_at = None
            self.kbi_delivered.append((self.step, what,
                                           policy_quiet(self.policy, self)))
            raise KeyboardInterrupt()

    def yield_(self, what='yield'):
        self.point(None, what)

    # -- virtual time ---------------------------------------------------
    def time(self):
        return self.clock

    def sleep(self, d):
        c = self.cur
        self.sleep_log.append((self.step, c.tid, d, self.clock,
                               c.tid in self.unbilled))
        if d is None or d <= 0:
            self.point(None, 'sleep0')
            return
        wake = self.clock + d
        self.point(lambda: self.clock >= wake, f'sleep({d})', wake_at=wake)


# --------------------------------------------------------------------------
# threading shim
# --------------------------------------------------------------------------
class DLock:
    def __init__(self, sched, name='lock'):
        self._s = sched
        self._locked = False
        self._owner = None
        self.name = name

    def acquire(self, blocking=True, timeout=-1):
        s = self._s
        if not blocking:
            s.point(None, f'{self.name}.tryacquire')
            if self._locked:
                return False
        else:
            s.cur_waiting_on = self
            me = s.cur
            me.waiting_on = self
            try:
                s.point(lambda: not self._locked, f'{self.name}.acquire')
            finally:
                me.waiting_on = None
        self._locked = True
        self._owner = s.cur
        return True

    def release(self):
        if not self._locked:
            raise RuntimeError('release unlocked lock')
        self._locked = False
        self._owner = None
        self._s.point(None, f'{self.name}.release')

    def locked(self):
        return self._locked

    def __enter__(self):
        self.acquire()
        return True

    def __exit__(self, *a):
        self.release()


class DRLock:
    def __init__(self, sched):
        self._s = sched
        self._owner = None
        self._count = 0

    def acquire(self, blocking=True, timeout=-1):
        s = self._s
        me = s.cur
        if self._owner is me:
            self._count += 1
            return True
        if not blocking:
            s.point(None, 'rlock.tryacquire')
            if self._owner is not None:
                return False
        else:
            s.point(lambda: self._owner is None, 'rlock.acquire')
        self._owner = me
        self._count = 1
        return True

    def release(self):
        if self._owner is not self._s.cur:
            raise RuntimeError('cannot release un-acquired lock')
        self._count -= 1
        if self._count == 0:
            self._owner = None
            self._s.point(None, 'rlock.release')

    def __enter__(self):
        self.acquire()
        return True

    def __exit__(self, *a):
        self.release()


class DEvent:
    def __init__(self, sched):
        self._s = sched
        self._flag = False

    def is_set(self):
        return self._flag

    isSet = is_set

    def set(self):
        self._flag = True
        self._s.point(None, 'event.set')

    def clear(self):
        self._flag = False

    def wait(self, timeout=None):
        s = self._s
        s.cur.last_wait_blocked = not self._flag
        if timeout is None:
            s.point(lambda: self._flag, 'event.wait', interruptible=True)
            return True
        wake = s.clock + timeout
        s.point(lambda: self._flag or s.clock >= wake, 'event.wait(t)',
                interruptible=True, wake_at=wake)
        return self._flag


class DCondition:
    def __init__(self, sched, lock=None):
        self._s = sched
        self._lock = lock if lock is not None else DRLock(sched)
        self._waiters = []
        self.acquire = self._lock.acquire
        self.release = self._lock.release

    def __enter__(self):
        return self._lock.__enter__()

    def __exit__(self, *a):
        return self._lock.__exit__(*a)

    def wait(self, timeout=None):
        s = self._s
        w = [False]
        self._waiters.append(w)
        s.cond_waiters.append(s.cur.name)
        # release the lock fully (plain lock only needs one release)
        self._lock.release()
        try:
            if timeout is None:
                s.point(lambda: w[0], 'cond.wait')
            else:
                wake = s.clock + timeout
                s.point(lambda: w[0] or s.clock >= wake, 'cond.wait(t)',
                        wake_at=wake)
        finally:
            if w in self._waiters:
                self._waiters.remove(w)
            if not s.aborting:
                self._lock.acquire()
        return w[0]

    def wait_for(self, predicate, timeout=None):
        r = predicate()
        while not r:
            self.wait(timeout)
            r = predicate()
        return r

    def notify(self, n=1):
        k = 0
        for w in list(self._waiters):
            if k >= n:
                break
            if not w[0]:
                w[0] = True
                self._waiters.remove(w)
                k += 1

    def notify_all(self):
        self.notify(len(self._waiters))

    notifyAll = notify_all


class DSemaphore:
    def __init__(self, sched, value=1):
        if value < 0:
            raise ValueError('semaphore initial value must be >= 0')
        self._s = sched
        self._value = value

    def acquire(self, blocking=True, timeout=None):
        s = self._s
        if not blocking:
            s.point(None, 'sem.tryacquire')
            if self._value <= 0:
                return False
        else:
            s.point(lambda: self._value > 0, 'sem.acquire')
        self._value -= 1
        return True

    def release(self, n=1):
        self._value += n
        self._s.point(None, 'sem.release')

    def __enter__(self):
        self.acquire()

    def __exit__(self, *a):
        self.release()


class DThread:
    """threading.Thread replacement (used by the process-pool replay)."""

    def __init__(self, sched, group=None, target=None, name=None, args=(),
                 kwargs=None, daemon=None):
        self._s = sched
        self._target = target
        self._args = args
        self._kwargs = kwargs or {}
        self.name = name or 'thread'
        self.daemon = daemon
        self._ct = None

    def run(self):
        if self._target is not None:
            self._target(*self._args, **self._kwargs)

    def start(self):
        self._ct = self._s.spawn(self.run, self.name, role='thread')
        self._s.point(None, 'thread.start')

    def join(self, timeout=None):
        ct = self._ct
        if ct is None:
            raise RuntimeError('cannot join thread before it is started')
        self._s.point(lambda: not ct.alive, 'thread.join', interruptible=True)

    def is_alive(self):
        return self._ct is not None and self._ct.alive


class ThreadingShim:
    """Stands in for the `threading` module inside s3transfer modules."""

    def __init__(self, sched):
        self._s = sched
        self.created = []

    def Lock(self):
        return DLock(self._s)

    def RLock(self):
        return DRLock(self._s)

    def Event(self):
        return DEvent(self._s)

    def Condition(self, lock=None):
        return DCondition(self._s, lock)

    def Semaphore(self, value=1):
        return DSemaphore(self._s, value)

    BoundedSemaphore = Semaphore

    def Thread(self, *a, **kw):
        return DThread(self._s, *a, **kw)

    def current_thread(self):
        return self._s.cur

    def get_ident(self):
        return self._s.cur.tid if self._s.cur else 0

    def __getattr__(self, name):
        # anything else (e.g. threading.local) comes from the real module
        return getattr(_rt, name)


class TimeShim:
    def __init__(self, sched):
        self._s = sched

    def time(self):
        return self._s.time()

    def sleep(self, d):
        return self._s.sleep(d)

    def monotonic(self):
        return self._s.time()


# --------------------------------------------------------------------------
# executor with ThreadPoolExecutor semantics
# --------------------------------------------------------------------------
class DetFuture:
    def __init__(self, sched):
        self._s = sched
        self._done = False
        self._result = None
        self._exc = None
        self._cbs = []

    def done(self):
        return self._done

    def result(self, timeout=None):
        if not self._done:
            self._s.point(lambda: self._done, 'future.result',
                          interruptible=True)
        if self._exc is not None:
            raise self._exc
        return self._result

    def exception(self, timeout=None):
        if not self._done:
            self._s.point(lambda: self._done, 'future.exception',
                          interruptible=True)
        return self._exc

    def add_done_callback(self, fn):
        if self._done:
            self._invoke(fn)
        else:
            self._cbs.append(fn)

    def _invoke(self, fn):
        try:
            fn(self)
        except SchedAbort:
            raise
        except Exception:
            log.debug('exception calling callback', exc_info=True)

    def _finish(self, result=None, exc=None):
        self._result = result
        self._exc = exc
        self._done = True
        cbs, self._cbs = self._cbs, []
        for fn in cbs:
            self._invoke(fn)


class DetExecutor:
    """FIFO queue, at most max_workers workers, shutdown(wait=True) drains the
    queue and joins, submit after shutdown raises RuntimeError, done callbacks
    run in the completing thread (or immediately when already done)."""

    registry = None  # set per run by make_executor_cls

    def __init__(self, sched, max_workers, registry=None):
        self._s = sched
        self.max_workers = max_workers
        self._q = []
        self._workers = []
        self._idle_sem = 0
        self._shutdown = False
        self.submitted = 0
        self.started = 0
        self.finished = 0
        self.peak_workers = 0
        self.index = None
        self.max_inflight = 0
        self.items = []
        if registry is not None:
            self.index = len(registry)
            registry.append(self)

    @property
    def inflight(self):
        return self.submitted - self.finished

    def submit(self, fn, *args, **kwargs):
        s = self._s
        if self._shutdown:
            raise RuntimeError('cannot schedule new futures after shutdown')
        f = DetFuture(s)
        item = {'submit': s.step, 'start': None, 'end': None, 'tid': None,
                'transfer': getattr(fn, 'transfer_id', None),
                'task': type(fn).__name__}
        self.items.append(item)
        self._q.append((f, fn, args, kwargs, item))
        self.submitted += 1
        if self.inflight > self.max_inflight:
            self.max_inflight = self.inflight
        # mirrors ThreadPoolExecutor._adjust_thread_count
        if self._idle_sem > 0:
            self._idle_sem -= 1
        elif len(self._workers) < self.max_workers:
            n = len(self._workers)
            w = s.spawn(self._worker, f'ex{self.index}-w{n}',
                        role=('executor', self.index))
            self._workers.append(w)
            if len(self._workers) > self.peak_workers:
                self.peak_workers = len(self._workers)
        s.point(None, 'executor.submit')
        return f

    def _worker(self):
        s = self._s
        while True:
            if not self._q:
                s.point(lambda: bool(self._q) or self._shutdown,
                        'worker.idle')
            if not self._q:
                if self._shutdown:
                    return
                continue
            f, fn, args, kwargs, item = self._q.pop(0)
            self.started += 1
            item['start'] = s.step
            item['tid'] = s.cur.tid
            try:
                r = fn(*args, **kwargs)
            except SchedAbort:
                raise
            except BaseException as e:  # noqa
                self.finished += 1
                item['end'] = s.step
                f._finish(exc=e)
                if not isinstance(e, Exception):
                    # ThreadPoolExecutor workers die on BaseException too
                    raise
            else:
                self.finished += 1
                item['end'] = s.step
                f._finish(result=r)
            self._idle_sem += 1
            s.point(None, 'worker.next')

    def shutdown(self, wait=True, cancel_futures=False):
        s = self._s
        self._shutdown = True
        s.point(None, 'executor.shutdown')
        if wait:
            for w in list(self._workers):
                if w.alive:
                    s.point(lambda w=w: not w.alive, 'executor.join',
                            interruptible=True)


def make_executor_cls(sched, registry):
    def factory(max_workers=None):
        return DetExecutor(sched, max_workers, registry)
    return factory


# --------------------------------------------------------------------------
# line-granularity preemption (sys.monitoring, Python >= 3.12)
# --------------------------------------------------------------------------
class LinePreempter:
    """Turns the n-th executed source line of s3transfer/*.py (n in a drawn
    set) into a scheduling point, so races that do not go through a
    synchronisation primitive (e.g. a dropped `with self._lock`) become
    reachable.  Only lines run by controlled threads count."""

    TOOL = 3
    # "dense" mode: every executed line inside the classes that guard shared
    # state with a lock becomes an ordinary scheduling point (the policy
    # decides whether to switch), so generated schedules interleave threads
    # INSIDE those critical regions
    DENSE = ('CountCallbackInvoker.', 'TransferCoordinator.',
             'TransferCoordinatorController.', 'TaskSemaphore.',
             'SlidingWindowSemaphore.', 'DeferQueue.', 'LeakyBucket.',
             'ConsumptionScheduler.', 'BandwidthRateTracker.',
             'SubmissionTask._wait', 'Task._wait', 'TransferMonitor.',
             'BaseTransferFuture.', 'TransferFuture.', 'StreamReaderProgress.',
             'DownloadOutputManager.', 'DownloadNonSeekableOutputManager.')

    def __init__(self, sched, at, files=None, count=False, dense=False):
        self.sched = sched
        self.files = files
        self.count = count
        self.dense = bool(dense)
        self.ndense = 0
        if dense:
            sched.has_line_preemption = True
        # entries: n (switch to a step-dependent other thread) or [n, k]
        # (switch to the k-th other enabled thread)
        self.at = {}
        for x in at:
            if isinstance(x, (list, tuple)):
                self.at[int(x[0])] = int(x[1])
            else:
                self.at[int(x)] = None
        self.n = 0
        self.active = False
        if self.at:
            sched.has_line_preemption = True

    def __enter__(self):
        import sys
        if (not self.at and not self.count and not self.dense) or \
                not hasattr(sys, 'monitoring'):
            return self
        mon = sys.monitoring
        try:
            mon.use_tool_id(self.TOOL, 'vt-lines')
        except ValueError:
            return self
        self.active = True
        import os
        from . import REPO
        prefix = os.path.join(REPO, 's3transfer') + os.sep
        sched = self.sched
        owner = self

        def on_line(code, line):
            if not code.co_filename.startswith(prefix):
                return mon.DISABLE
            if owner.files and not code.co_filename.endswith(owner.files):
                return mon.DISABLE
            cur = sched.cur
            if cur is None or sched.aborting or sched.busy:
                return None
            import threading as _t
            if _t.current_thread() is not cur.os:
                return None
            owner.n += 1
            if owner.n in owner.at:
                sched.point(None, f'line:{os.path.basename(code.co_filename)}'
                                  f':{line}', force_switch=True,
                            force_pick=owner.at[owner.n])
            elif owner.dense and code.co_qualname.startswith(owner.DENSE):
                owner.ndense += 1
                sched.point(None, f'dline:{code.co_qualname}:{line}')
            return None

        mon.register_callback(self.TOOL, mon.events.LINE, on_line)
        mon.set_events(self.TOOL, mon.events.LINE)
        return self

    def __exit__(self, *a):
        if self.active:
            import sys
            mon = sys.monitoring
            mon.set_events(self.TOOL, 0)
            mon.register_callback(self.TOOL, mon.events.LINE, None)
            mon.free_tool_id(self.TOOL)
            mon.restart_events()
            self.active = False


# --------------------------------------------------------------------------
# inline (single-threaded) shim: any operation that would block raises
# --------------------------------------------------------------------------
class WouldBlock(Exception):
    """A single-threaded history reached an operation that blocks forever."""


class _ILock:
    def __init__(self):
        self._locked = False

    def acquire(self, blocking=True, timeout=-1):
        if self._locked:
            if not blocking:
                return False
            raise WouldBlock('acquire of a held lock (self-deadlock)')
        self._locked = True
        return True

    def release(self):
        if not self._locked:
            raise RuntimeError('release unlocked lock')
        self._locked = False

    def locked(self):
        return self._locked

    def __enter__(self):
        self.acquire()
        return True

    def __exit__(self, *a):
        self.release()


class _IEvent:
    def __init__(self):
        self._flag = False

    def is_set(self):
        return self._flag

    def set(self):
        self._flag = True

    def clear(self):
        self._flag = False

    def wait(self, timeout=None):
        if not self._flag:
            if timeout is None:
                raise WouldBlock('wait on an event that is never set')
            return False
        return True


class _ICondition:
    def __init__(self, lock=None):
        self._lock = lock if lock is not None else _ILock()
        self.acquire = self._lock.acquire
        self.release = self._lock.release

    def __enter__(self):
        return self._lock.__enter__()

    def __exit__(self, *a):
        return self._lock.__exit__(*a)

    def wait(self, timeout=None):
        if timeout is None:
            raise WouldBlock('condition wait with nobody to notify')
        return False

    def notify(self, n=1):
        pass

    def notify_all(self):
        pass


class _ISemaphore:
    def __init__(self, value=1):
        self._value = value

    def acquire(self, blocking=True, timeout=None):
        if self._value <= 0:
            if not blocking:
                return False
            raise WouldBlock('blocking acquire of an exhausted semaphore')
        self._value -= 1
        return True

    def release(self, n=1):
        self._value += n


class InlineThreading:
    Lock = staticmethod(lambda: _ILock())
    RLock = staticmethod(lambda: _ILock())
    Event = staticmethod(lambda: _IEvent())
    Condition = staticmethod(lambda lock=None: _ICondition(lock))
    Semaphore = staticmethod(lambda value=1: _ISemaphore(value))
    BoundedSemaphore = Semaphore

    def __getattr__(self, name):
        return getattr(_rt, name)


class inline_patched:
    """Context manager: s3transfer.utils / futures use the inline shim."""

    def __enter__(self):
        import s3transfer.utils
        import s3transfer.futures
        self.mods = [s3transfer.utils, s3transfer.futures]
        self.saved = [m.threading for m in self.mods]
        shim = InlineThreading()
        for m in self.mods:
            m.threading = shim
        return self

    def __exit__(self, *a):
        for m, t in zip(self.mods, self.saved):
            m.threading = t
